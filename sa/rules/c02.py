"""C02 / C13 - progress and poll_at structural clauses."""
from ..framework import rule
from ..core import *
from ..lib import *
from ..fdai import FDAI
from ..wirelib import ret_origin
from .c04 import S, R, const_int

TM = 'socket::tcp::Timer'
IF = 'iface::interface::Interface'
IFI = 'iface::interface::InterfaceInner'


def timer_parts():
    """partitions of the Timer value behind &self: (label, init dict)"""
    root = (('d', 1), ())
    ka = (('d', 1), (('dc', 'Idle'), ('f', 'keep_alive_at', TM, 'Idle')))
    return [
        ('Idle/None', {root: frozenset(['Idle']), ka: frozenset(['None'])}),
        ('Idle/Some', {root: frozenset(['Idle']), ka: frozenset(['Some'])}),
        ('Retransmit', {root: frozenset(['Retransmit'])}),
        ('FastRetransmit', {root: frozenset(['FastRetransmit'])}),
        ('ZeroWindowProbe', {root: frozenset(['ZeroWindowProbe'])}),
        ('Close', {root: frozenset(['Close'])}),
    ]


@rule('R02.2', ['C02', 'C13'], floor=6, clause='every armed TCP timer variant maps to a finite poll deadline; only the idle timer without keep-alive maps to "wait for ingress"')
def r02_2(ctx):
    """T4 (finite-domain abstract interpretation of Timer::poll_at per timer variant)."""
    F = ctx.F
    b = ctx.method(TM, 'poll_at')
    want = {'Idle/None': {'Ingress'}, 'Idle/Some': {'Time'}, 'Retransmit': {'Time'}, 'FastRetransmit': {'Now'},
            'ZeroWindowProbe': {'Time'}, 'Close': {'Time'}}
    for lab, init in timer_parts():
        r = FDAI(F).run(b, init)
        got = set(r.ret) if r.ret is not None else None
        if got == want[lab]:
            ctx.ok(('poll_at', lab), sample=dict(timer=lab, poll_at=sorted(got)))
        else:
            ctx.bad(f"Timer::poll_at|{lab}", f"Timer::poll_at maps {lab} to {sorted(got) if got else 'unknown'} (expected {sorted(want[lab])}): "
                    "an armed timer without a finite deadline stalls the connection", body=b)
    # the Time payload is the variant's own deadline field
    o = ret_origin(F, b)
    ls = leafs(o)
    for fld in ('expires_at', 'keep_alive_at'):
        if f"F:{TM}.{fld}" in ls:
            ctx.ok(('poll_at', 'deadline', fld))
        else:
            ctx.bad(f"Timer::poll_at|deadline|{fld}", f"Timer::poll_at never returns the {fld} deadline", body=b)


SETTERS = {
    'set_for_retransmit': {'Idle/None': 'Retransmit', 'Idle/Some': 'Retransmit', 'Retransmit': 'Retransmit',
                           'FastRetransmit': 'Retransmit', 'ZeroWindowProbe': 'Retransmit', 'Close': 'Close'},
    'set_for_idle': {k: 'Idle' for k in ('Idle/None', 'Idle/Some', 'Retransmit', 'FastRetransmit', 'ZeroWindowProbe', 'Close')},
    'set_for_close': {k: 'Close' for k in ('Idle/None', 'Idle/Some', 'Retransmit', 'FastRetransmit', 'ZeroWindowProbe', 'Close')},
    'set_for_fast_retransmit': {k: 'FastRetransmit' for k in ('Idle/None', 'Idle/Some', 'Retransmit', 'FastRetransmit', 'ZeroWindowProbe', 'Close')},
    'set_for_zero_window_probe': {k: 'ZeroWindowProbe' for k in ('Idle/None', 'Idle/Some', 'Retransmit', 'FastRetransmit', 'ZeroWindowProbe', 'Close')},
    'rewind_zero_window_probe': {'Idle/None': 'Idle', 'Idle/Some': 'Idle', 'Retransmit': 'Retransmit', 'FastRetransmit': 'FastRetransmit',
                                 'ZeroWindowProbe': 'ZeroWindowProbe', 'Close': 'Close'},
    'rewind_keep_alive': {'Idle/None': 'Idle', 'Idle/Some': 'Idle', 'Retransmit': 'Retransmit', 'FastRetransmit': 'FastRetransmit',
                          'ZeroWindowProbe': 'ZeroWindowProbe', 'Close': 'Close'},
    # enabling keep-alive from the API while a retransmission / probe / TIME-WAIT timer runs must not replace that timer
    'set_keep_alive': {'Idle/None': 'Idle', 'Idle/Some': 'Idle', 'Retransmit': 'Retransmit', 'FastRetransmit': 'FastRetransmit',
                       'ZeroWindowProbe': 'ZeroWindowProbe', 'Close': 'Close'},
}


@rule('R02.8', ['C02', 'C13'], floor=36, clause='the timer transition table: set_for_retransmit arms a retransmission from every state except TIME-WAIT close; the other setters/rewinders go exactly where their name says')
def r02_8(ctx):
    """T4: final variant of *self per initial variant for every Timer mutator (a FIN or data segment
    sent while a stale probe/idle timer is armed must still get a retransmission timer)."""
    F = ctx.F
    root = (('d', 1), ())
    for fn, table in SETTERS.items():
        b = ctx.method(TM, fn)
        for lab, init in timer_parts():
            r = FDAI(F).run(b, init)
            fin = r.final.get(root) if r.final else None
            got = set(fin) if fin is not None else None
            if got == {table[lab]}:
                ctx.ok((fn, lab), sample=dict(fn=fn, frm=lab, to=table[lab]))
            else:
                ctx.bad(f"Timer::{fn}|{lab}", f"Timer::{fn} takes {lab} to {sorted(got) if got else 'unknown'} (expected {table[lab]})", body=b)


@rule('R02.1', ['C02'], floor=1, clause='after a successful emit every path either (re)arms the retransmission timer, or sent nothing that occupies sequence space, or was a probe/keep-alive, or the retransmission timer is already running')
def r02_1(ctx):
    """T2 in tcp::Socket::dispatch, from the Ok continuation of the `emit` call to every return."""
    F = ctx.F
    d = ctx.method(S, 'dispatch')
    emits = [x for x in d.calls() if isinstance(x[1], dict) and (x[1].get('fn') or '').endswith('FnOnce::call_once')]
    ctx.need(len(emits) == 1, "one call of the emit closure in tcp::dispatch")
    e = emits[0]
    sfr = ctx.method(TM, 'set_for_retransmit')
    blockers = {x[0] for x in d.calls() if d.callee_name(x[1]) == sfr.key}
    ctx.need(blockers, "set_for_retransmit call in dispatch")
    pred = p_any(
        p_call(mpred(F, TM, 'is_retransmit'), True),
        p_call(mpred(F, TM, 'should_keep_alive'), True),
        p_call(mpred(F, TM, 'should_zero_window_probe'), True),
        lambda f: f[0] == 'rel' and f[1] in ('Le', 'Eq') and any(l.endswith('segment_len') for l in leafs(f[2]) if l.startswith('C:')) and const_int(simplify(f[3])) == 0,
    )
    # start after the `?` of emit: the Continue/Ok edge.  Only guard outcomes evaluated *after* the emit
    # count, plus bool flags computed before it (is_keep_alive / is_zero_window_probe) whose `true`
    # stores are all behind should_keep_alive()/should_zero_window_probe()
    start = e[4]
    after = set(d.reachable(start=start))
    base = guard_edges(F, d, pred)
    g = derived_guard_edges(d, base, polarity=True, pred=pred)
    g = {x for x in g if x[0] in after}
    # the Err/Break edge of the `?` applied to the emit result is not a "successful emit"
    errs = set()
    for bi in after:
        if d.blocks[bi]['t'][0] == 'switch':
            for tb, lab, f in cond_facts(F, d, bi):
                if f[0] == 'is' and f[2] in ('Break', 'Err') and any(l.endswith('FnOnce::call_once') for l in leafs(f[1]) if l.startswith('C:')):
                    errs.add((bi, tb, lab))
    ctx.need(errs, "`?` on the emit result in dispatch")
    seen = d.reachable(cut_edges=set(g) | errs, cut_blocks=blockers, start=start)
    rets = [r for r in d.return_blocks() if r in seen]
    if rets:
        ctx.bad("dispatch|no-rearm", "after a successful emit of a sequence-occupying segment a path returns without arming the retransmission "
                "timer (lost segment would never be resent)", body=d, bb=rets[0], path=d.path_to(seen, rets[0]))
    else:
        ctx.ok(('rearm',), sample=dict(fn='tcp::dispatch', after_emit='set_for_retransmit | is_retransmit() | probe | keep-alive | segment_len()==0'))


def _is_err_return(F, d, r, seen):
    """return block reached only through the Err/Break edge of the emit `?`"""
    p = d.path_to(seen, r)
    for a, b_ in zip(p, p[1:]):
        for tb, lab, f in cond_facts(F, d, a) if d.blocks[a]['t'][0] == 'switch' else []:
            if tb == b_ and f[0] == 'is' and f[2] in ('Break', 'Err'):
                return True
    return False


MIRROR = {
    # dispatch predicate -> how poll_at accounts for it
    'should_retransmit': ('call', 'poll_at', TM),
    'should_keep_alive': ('call', 'poll_at', TM),
    'should_zero_window_probe': ('call', 'poll_at', TM),
    'should_close': ('call', 'poll_at', TM),
    'timed_out': ('fields', ['remote_last_ts', 'timeout']),
    'delayed_ack_expired': ('fields', ['ack_delay_timer']),
    'is_retransmit': None, 'is_idle': None, 'is_zero_window_probe': None,   # not send predicates
}


@rule('R02.3', ['C02', 'C13'], floor=6, clause='tcp::Socket::poll_at accounts for every predicate that makes dispatch transmit (directly, through Timer::poll_at, or by reading the same deadline fields)')
def r02_3(ctx):
    """T6 sibling agreement poll_at <-> dispatch: bool-returning &self methods of tcp::Socket / Timer that
    dispatch evaluates before the emit call must each be mirrored in poll_at; an unmapped new predicate
    fails closed."""
    F = ctx.F
    d = ctx.method(S, 'dispatch')
    p = ctx.method(S, 'poll_at')
    emits = [x for x in d.calls() if isinstance(x[1], dict) and (x[1].get('fn') or '').endswith('FnOnce::call_once')]
    ctx.need(len(emits) == 1, "emit call in dispatch")
    before = d.reachable()   # all blocks; restrict to those from which emit is reachable
    preds = {}
    for bi, c, args, dest, tgt, ln in d.calls():
        n = d.callee_name(c)
        cb = F.bodies.get(n or '')
        if cb is None or cb.meta.get('impl_self') not in (S, TM) or cb.locals[0]['ty'] != 'bool':
            continue
        if cb.nargs < 1 or cb.locals[1]['ty'].startswith('&mut'):
            continue
        if emits[0][0] in d.reachable(start=bi):
            preds[n.rsplit('::', 1)[-1]] = n
    ctx.need(len(preds) >= 6, f"send predicates in dispatch (found {sorted(preds)})")
    pcalls = {p.callee_name(c) for _, c, *_ in p.calls()}
    pleafs = set()

    def collect(y, depth):
        for bi, bl in enumerate(y.blocks):
            if bl['cl']:
                continue
            for si, s in enumerate(bl['s']):
                if s[0] == 'a':
                    for l in leafs(F.origin.rvalue(y, s[2], bi, si, 0, None)):
                        pleafs.add(l)
        if depth < 2:
            # what poll_at reads through its own `&self` helpers counts as read by poll_at
            for _, c, *_ in y.calls():
                cb = F.bodies.get(y.callee_name(c) or '')
                if cb is not None and cb.meta.get('impl_self') in (S, TM) and cb.nargs >= 1 and not cb.locals[1]['ty'].startswith('&mut'):
                    collect(cb, depth + 1)
    collect(p, 0)
    for nm, key in sorted(preds.items()):
        if key in pcalls:
            ctx.ok(('mirror', nm, 'called'), sample=dict(predicate=nm, poll_at='calls it'))
            continue
        m = MIRROR.get(nm, 'unmapped')
        if m is None:
            ctx.ok(('mirror', nm, 'not-a-send-predicate'))
        elif m == 'unmapped':
            ctx.bad(f"poll_at|unmapped|{nm}", f"dispatch consults {nm}() before transmitting but tcp::Socket::poll_at has no counterpart for it "
                    "(rule table has no mapping: new time/condition dependency not reflected in the wake-up schedule)", body=p)
        elif m[0] == 'call':
            tgt = F.method(m[2], m[1])
            if tgt is not None and tgt.key in pcalls:
                ctx.ok(('mirror', nm, 'via', m[1]), sample=dict(predicate=nm, poll_at=f"via {m[2].split('::')[-1]}::{m[1]}"))
            else:
                ctx.bad(f"poll_at|missing|{nm}", f"poll_at does not consult {m[2]}::{m[1]} although dispatch acts on {nm}()", body=p)
        elif m[0] == 'fields':
            miss = [f for f in m[1] if f"F:{S}.{f}" not in pleafs]
            if miss:
                ctx.bad(f"poll_at|missing|{nm}", f"poll_at ignores {miss} although dispatch acts on {nm}()", body=p)
            else:
                ctx.ok(('mirror', nm, 'fields'), sample=dict(predicate=nm, poll_at=f"reads {m[1]}"))


def mss_units(F, node, adt, ss_k, depth=0):
    """lower bound of node in units of self.mss (abstract domain '>= k*mss')"""
    n = simplify(node)
    if depth > 12:
        return 0
    if n[0] == 'cast':
        return mss_units(F, n[1], adt, ss_k, depth + 1)
    if is_field(n, adt, 'mss'):
        return 1
    if is_field(n, adt, 'cwnd'):
        return 1
    if is_field(n, adt, 'ssthresh'):
        return ss_k
    if n[0] == 'bin' and n[1] == 'Mul':
        for a, b in ((n[2], n[3]), (n[3], n[2])):
            c = const_int(a)
            if c is not None:
                return c * mss_units(F, b, adt, ss_k, depth + 1)
        return 0
    if n[0] == 'bin' and n[1] == 'Add':
        return mss_units(F, n[2], adt, ss_k, depth + 1) + mss_units(F, n[3], adt, ss_k, depth + 1)
    if n[0] == 'proj' and strip(n[1])[0] == 'agg' and strip(n[1])[1] == 'tuple':
        return mss_units(F, strip(n[1])[2][0], adt, ss_k, depth + 1)
    if n[0] == 'call' and len(n[2]) == 2:
        a, b = n[2]
        if n[1].endswith('::max'):
            return max(mss_units(F, a, adt, ss_k, depth + 1), mss_units(F, b, adt, ss_k, depth + 1))
        if n[1].endswith('::min'):
            return min(mss_units(F, a, adt, ss_k, depth + 1), mss_units(F, b, adt, ss_k, depth + 1))
        if n[1].endswith('saturating_add'):
            return mss_units(F, a, adt, ss_k, depth + 1) + mss_units(F, b, adt, ss_k, depth + 1)
    if n[0] == 'phi':
        return min(mss_units(F, a, adt, ss_k, depth + 1) for a in n[1])
    return 0


@rule('R02.4', ['C02'], floor=10, clause='every store to the congestion window keeps it >= 1 MSS (Reno and CUBIC)')
def r02_4(ctx):
    """T5 in the abstract domain '>= k*mss': max(x,mss)->1, mss->1, ssthresh->its own bound,
    saturating_add/+ add, min takes the minimum, anything else 0."""
    F = ctx.F
    for adt in ('socket::tcp::congestion::reno::Reno', 'socket::tcp::congestion::cubic::Cubic'):
        if adt not in F.adts:
            raise Exception(f"{adt} missing")
        def stores(field):
            out = []
            for w in F.writers_of(adt, field, kinds=('store',)):
                b = F.body(w['fn'])
                if w['si'] == 'T':
                    o = F.origin.call_node(b, b.blocks[w['bb']]['t'], w['bb'], 0, None)
                else:
                    o = F.origin.rvalue(b, b.blocks[w['bb']]['s'][w['si']][2], w['bb'], w['si'], 0, None)
                out.append((w, b, o))
            return out
        ss = stores('ssthresh')
        ss_k = min([mss_units(F, o, adt, 0) for (w, b, o) in ss if not _is_init(w)] or [0])
        short = adt.rsplit('::', 1)[-1]
        for (w, b, o) in stores('cwnd'):
            fnm = w['fn'].rsplit('::', 1)[-1]
            if _is_init(w):
                continue
            k = mss_units(F, o, adt, ss_k)
            if k >= 1:
                ctx.ok((short, fnm, w['bb']), sample=dict(controller=short, fn=fnm, cwnd=show(simplify(o))[:70], lower_bound_mss=k))
            else:
                ctx.bad(f"{short}::{fnm}|cwnd-floor", f"{short}::{fnm} stores cwnd = {show(simplify(o))[:90]} with no >= 1 MSS lower bound "
                        "(a zero congestion window stops transmission for good)", body=b, bb=w['bb'])


def _is_init(w):
    return w['fn'].rsplit('::', 1)[-1] in ('new', 'default')


@rule('R02.5', ['C02', 'C13'], floor=1, clause='deadlines are never combined with the derived ordering of Option (None sorts first and would mean "never")')
def r02_5(ctx):
    """T5: in every body reachable from Interface::poll_at no call of Ord::min / cmp::min / Iterator::min
    has an `Option<Instant>` element type."""
    F = ctx.F
    root = ctx.method(IF, 'poll_at')
    reach = F.reachable_from([root.key])
    n = 0
    for k in sorted(reach):
        b = F.bodies.get(k)
        if b is None:
            continue
        for bi, c, args, dest, tgt, ln in b.calls():
            if not isinstance(c, dict) or 'fn' not in c:
                continue
            fn = c['fn']
            if fn.rsplit('::', 1)[-1] not in ('min', 'max', 'min_by', 'cmp', 'partial_cmp'):
                continue
            ga = c.get('ga') or []
            n += 1
            if any(g.replace(' ', '').startswith('std::option::Option<time::Instant>') for g in ga[:1]) and fn.endswith(('::min', '::max')):
                fnm = k.rsplit('::', 1)[-1]
                ctx.bad(f"{fnm}|option-min", f"{k} combines deadlines with {fn.rsplit('::', 2)[-2]}::{fn.rsplit('::', 1)[-1]} on Option<Instant>: "
                        "None compares below every Some, so an absent deadline erases a present one", body=b, bb=bi)
            else:
                ctx.ok((k.rsplit('::', 1)[-1], fn.rsplit('::', 1)[-1], bi))
    ctx.need(n >= 1, "min/max calls reachable from Interface::poll_at")


@rule('R02.7', ['C02'], floor=3, clause='zero-window probing is armed when the peer window closes with data queued, and disarmed when it reopens')
def r02_7(ctx):
    F = ctx.F
    zw = ctx.method(TM, 'set_for_zero_window_probe')
    callers = sorted(F.callers(zw.key))
    names = {(F.body(c).meta.get('root') or c).rsplit('::', 1)[-1] for c in callers}
    for want in ('process', 'send_impl'):
        if want in names:
            ctx.ok(('zwp-armed-in', want))
        else:
            ctx.bad(f"zwp|not-armed|{want}", f"zero-window probe timer is not armed in tcp::Socket::{want}")
    for c in callers:
        b = F.body(c)
        for x in b.calls():
            if b.callee_name(x[1]) != zw.key:
                continue
            pred = p_rel('eq', [f"F:{S}.remote_win_len"], ['K:0'])
            pred2 = lambda f: f[0] == 'rel' and f[1] == 'Eq' and const_int(simplify(f[3])) == 0 and \
                (f"F:{S}.remote_win_len" in leafs(f[2]) or f"F:{R}.window_len" in leafs(f[2]))
            bad = unguarded(F, b, [x[0]], p_any(pred, pred2))
            fnm = (b.meta.get('root') or c).rsplit('::', 1)[-1]
            if bad:
                ctx.bad(f"{fnm}|zwp|guard", f"{fnm} arms the zero-window probe without a `window == 0` guard", body=b, bb=x[0], path=bad[0][1])
            else:
                ctx.ok(('zwp-guard', fnm), sample=dict(fn=fnm, guard='remote window == 0'))


@rule('R02.9', ['C02', 'C13'], floor=1, clause='whether a FIN may be sent does not depend on the peer window being open (a FIN must go out, and be retransmitted, into a zero window)')
def r02_9(ctx):
    """T1 (negative guard): in tcp::Socket::seq_to_transmit the comparison that decides "all data sent, FIN
    can go" (remote_last_seq == local_seq_no + tx_buffer.len()) must stay reachable when every branch
    outcome asserting `remote_win_len != 0` is removed."""
    F = ctx.F
    b = ctx.method(S, 'seq_to_transmit')
    sites = []
    for bi, bl in enumerate(b.blocks):
        if bl['cl']:
            continue
        cand = []
        for si, s in enumerate(bl['s']):
            if s[0] == 'a':
                cand.append(simplify(F.origin.rvalue(b, s[2], bi, si, 0, None)))
        t = bl['t']
        if t[0] == 'call':
            cand.append(simplify(F.origin.call_node(b, t, bi, 0, None)))
        for o in cand:
            if (o[0] == 'call' and o[1].endswith(('::eq', '::ne')) or (o[0] == 'bin' and o[1] in ('Eq', 'Ne'))):
                xs = o[2] if o[0] == 'call' else (o[2], o[3])
                if len(xs) == 2:
                    for x, y in ((xs[0], xs[1]), (xs[1], xs[0])):
                        if is_field(x, S, 'remote_last_seq') and is_call(y, '::add', nargs=2) and is_field(call_args(y)[0], S, 'local_seq_no') \
                                and f"F:{S}.tx_buffer" in leafs(call_args(y)[1]):
                            sites.append(bi)
    ctx.need(sites, "FIN readiness comparison remote_last_seq == local_seq_no + tx_buffer.len() in seq_to_transmit")

    def win_nonzero(f):
        if f[0] != 'rel':
            return False
        _, op, x, y = f
        for p, q, o in ((x, y, op), (y, x, FLIP[op])):
            if is_field(simplify(p), S, 'remote_win_len') and const_int(simplify(q)) == 0 and o in ('Ne', 'Gt'):
                return True
        return False
    cut = guard_edges(F, b, win_nonzero)
    cut = derived_guard_edges(b, cut, pred=win_nonzero)
    seen = b.reachable(cut_edges=cut)
    if all(s not in seen for s in sites):
        ctx.bad("seq_to_transmit|fin-needs-open-window", "the FIN-ready test in seq_to_transmit is only reached when remote_win_len != 0: a bare FIN is "
                "neither sent nor retransmitted into a zero window, leaving an unacknowledged FIN with no deadline", body=b, bb=sites[0])
    else:
        ctx.ok(('fin-independent-of-window',), sample=dict(fn='seq_to_transmit', fin_ready='reachable with remote_win_len == 0'))
