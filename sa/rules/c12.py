"""C12 - IPv4 fragmentation / reassembly structural clauses (also the shared fragmenter of C20)."""
from ..framework import rule
from ..core import *
from ..lib import *
from ..wirelib import ret_origin
from .c04 import const_int
from .c14 import store_origin, untuple

IF = 'iface::interface::Interface'
IFI = 'iface::interface::InterfaceInner'
FR = 'iface::fragmentation::Fragmenter'
PA = 'iface::fragmentation::PacketAssembler'
PAS = 'iface::fragmentation::PacketAssemblerSet'
DC = 'phy::DeviceCapabilities'


def idle_pred(F):
    ie, fi = F.method(FR, 'is_empty'), F.method(FR, 'finished')
    return p_any(p_call(lambda n: ie is not None and n == ie.key, True), p_call(lambda n: fi is not None and n == fi.key, True))


@rule('R12.1', ['C12', 'C20', 'C09'], floor=3, clause='a new fragmented packet is only started when the single fragmenter is idle; sockets are not dequeued while fragments are pending')
def r12_1(ctx):
    """T1: every store of a non-zero value to Fragmenter.packet_len (the start of a fragmented
    transmission) is dominated by the true edge of Fragmenter::is_empty() or ::finished(); in
    Interface::socket_egress every socket dispatch is behind that guard as well."""
    F = ctx.F
    ws = F.writers_of(FR, 'packet_len', kinds=('store',))
    n = 0
    for w in ws:
        b = F.body(w['fn'])
        fnm = (b.meta.get('root') or w['fn']).rsplit('::', 1)[-1]
        o = simplify(store_origin(F, b, w))
        if const_int(o) == 0:
            continue
        if fnm in ('new',):
            continue
        n += 1
        bad = unguarded(F, b, [w['bb']], idle_pred(F))
        if bad:
            ctx.bad(f"{fnm}|fragmenter-busy", f"{fnm} (re)initialises the fragmenter (packet_len = {show(o)[:40]}) without checking that it is idle: "
                    "the pending fragments of a previous datagram are overwritten", body=b, bb=w['bb'], path=bad[0][1])
        else:
            ctx.ok((fnm, 'start-when-idle'), sample=dict(fn=fnm, guard='fragmenter.is_empty() | finished()'))
    ctx.need(n >= 2, "fragment starters (dispatch_ip, dispatch_sixlowpan)")
    se = ctx.method(IF, 'socket_egress')
    sites = []
    for x in se.calls():
        nm = se.callee_name(x[1]) or ''
        if nm.endswith('::dispatch') and nm.startswith('socket::'):
            sites.append(x[0])
    ctx.need(len(sites) >= 4, "socket dispatch calls in socket_egress")
    bad = unguarded(F, se, sites, idle_pred(F))
    if bad:
        ctx.bad("socket_egress|fragmenter-busy", "socket_egress dequeues from sockets while the fragmenter still holds pending fragments "
                "(an oversize datagram would be dropped or would overwrite them)", body=se, bb=bad[0][0], path=bad[0][1])
    else:
        ctx.ok(('socket_egress', 'idle-guard'), sample=dict(fn='socket_egress', guard='fragmenter idle before every socket dispatch'))
    # per iteration: once one socket was dispatched (and may have filled the fragmenter), the next dispatch is
    # again behind the guard - a check hoisted in front of the loop does not protect the second socket
    g = guard_edges(F, se, idle_pred(F))     # base edges only: derived edges are relative to the function entry
    again = None
    for x in se.calls():
        if x[0] in sites and x[4] is not None:
            r = cut_sites(se, sites, g, start=x[4])
            if r:
                again = (x[0], r[0])
                break
    if again:
        ctx.bad("socket_egress|fragmenter-busy|next-socket", "after one socket was dispatched the next socket is dispatched without re-checking that the "
                "fragmenter is idle: a second oversize datagram in the same poll is dequeued and dropped", body=se, bb=again[1][0], path=again[1][1])
    else:
        ctx.ok(('socket_egress', 'idle-guard-per-iteration'), sample=dict(fn='socket_egress', guard='re-checked before every further socket'))


@rule('R12.2', ['C12', 'C10'], floor=3, clause='fragment payload size is (MTU - header) rounded down to a multiple of 8; both fragment emitters use it; more-fragments is set exactly when bytes remain')
def r12_2(ctx):
    F = ctx.F
    m = ctx.method(DC, 'max_ipv4_fragment_size')
    r = untuple(simplify(ret_origin(F, m)))
    okv = False
    if r[0] == 'bin' and r[1] == 'Sub':
        a, b = untuple(r[2]), untuple(r[3])
        if b[0] == 'bin' and b[1] == 'Rem' and untuple(b[2]) == a and const_int(simplify(b[3])) == 8 \
                and any(l.endswith('::ip_mtu') for l in leafs(a) if l.startswith('C:')) and 'A:2' in leafs(a):
            okv = True
    if okv:
        ctx.ok(('max_ipv4_fragment_size',), sample=dict(value='m - m % 8, m = ip_mtu() - header'))
    else:
        ctx.bad("max_ipv4_fragment_size|shape", f"max_ipv4_fragment_size = {show(r)[:100]} is not (ip_mtu - header) rounded down to a multiple of 8", body=m)
    for fn in ('dispatch_ip', 'dispatch_ipv4_frag'):
        b = ctx.method(IFI, fn)
        if any(b.callee_name(c) == m.key for _, c, *_ in b.calls()):
            ctx.ok((fn, 'uses-max-frag'))
        else:
            ctx.bad(f"{fn}|frag-size", f"{fn} does not size fragments with max_ipv4_fragment_size()", body=b)
    # more_frags in dispatch_ipv4_frag: (packet_len - sent_bytes) != payload_len
    b = ctx.method(IFI, 'dispatch_ipv4_frag')
    smf = F.method('wire::ipv4::Packet', 'set_more_frags')
    found = False
    for body in [b] + F.closures_of(b.key):
        for x in body.calls():
            if body.callee_name(x[1]) == smf.key:
                found = True
                o = simplify(F.origin.operand(body, x[2][1], x[0], len(body.blocks[x[0]]['s'])))
                if body is not b:
                    # captured upvar: resolve through the parent
                    o = _resolve_upvar(F, b, body, o)
                oo = untuple(o)
                good = oo[0] == 'bin' and oo[1] == 'Ne' and f"F:{FR}.packet_len" in leafs(oo) and f"F:{FR}.sent_bytes" in leafs(oo) \
                    and any(l.endswith('::min') for l in leafs(oo) if l.startswith('C:'))
                if good:
                    ctx.ok(('more_frags',), sample=dict(more_frags='(packet_len - sent_bytes) != payload_len'))
                else:
                    ctx.bad("dispatch_ipv4_frag|more_frags", f"more-fragments flag = {show(oo)[:100]} is not `remaining != this fragment's payload`", body=body, bb=x[0])
    ctx.need(found, "set_more_frags in dispatch_ipv4_frag")


def _resolve_upvar(F, parent, closure, node):
    """a closure reads a captured variable: find the captured operand in the parent's closure aggregate"""
    n = strip(node)
    if n[0] in ('field', 'proj'):
        caps = [e for e in n[2] if e[0] == 'f' and e[2] == '{closure}']
        if caps:
            name = caps[0][1]
            for bi, bl in enumerate(parent.blocks):
                if bl['cl']:
                    continue
                for si, s in enumerate(bl['s']):
                    if s[0] == 'a' and s[2][0] == 'agg' and s[2][1]['k'] == 'closure' and s[2][1]['def'] == closure.key:
                        # capture order = closure field order; find by debug names of the closure body
                        idx = caps[0] and [e for e in n[2] if e[0] == 'f' and e[2] == '{closure}'][0]
                        for i, o in enumerate(s[2][2]):
                            oo = F.origin.operand(parent, o, bi, si)
                            if is_place_op(o) and parent.locals[o[1][0]]['name'] == name:
                                return simplify(oo)
                            st = strip(oo)
                            if st[0] == 'ref' or True:
                                # by-reference capture of a named local
                                if is_place_op(o):
                                    t = parent.ref_target(o[1][0])
                                    if t is not None and t[0][0] == 'l' and parent.locals[t[0][1]]['name'] == name:
                                        return simplify(F.origin.nplace(parent, t, bi, si))
    return node


@rule('R12.3', ['C12', 'C11'], floor=4, clause='reassembly key is (identification, source, destination, protocol)')
def r12_3(ctx):
    F = ctx.F
    b = ctx.method('wire::ipv4::Packet', 'get_key')
    r = simplify(ret_origin(F, b))
    ctx.need(r[0] == 'agg' and r[1].endswith('Key::-'), f"get_key builds a Key ({show(r)[:60]})")
    names = r[3] if len(r) > 3 else ()
    want = {'id': 'ident', 'src_addr': 'src_addr', 'dst_addr': 'dst_addr', 'protocol': 'next_header'}
    for fld, getter in want.items():
        if fld in names and is_call(r[2][names.index(fld)], '::' + getter):
            ctx.ok(('key', fld), sample=dict(field=fld, source=getter + '()'))
        else:
            ctx.bad(f"get_key|{fld}", f"reassembly key field `{fld}` is not taken from {getter}()", body=b)
    # the key type derives equality over all four
    k = F.adts.get('wire::ipv4::Key')
    if k and {f['name'] for f in k['variants'][0]['fields']} == set(want):
        ctx.ok(('key', 'fields'))
    else:
        ctx.bad("Key|fields", "wire::ipv4::Key does not consist of exactly id/src_addr/dst_addr/protocol")


@rule('R12.4', ['C12', 'C20', 'C03'], floor=5, clause='a datagram is delivered only when its total size is known and the contiguous front equals it; a slot is only ever freed through reset(), which clears ranges and total size')
def r12_4(ctx):
    F = ctx.F
    ic = ctx.method(PA, 'is_complete')
    r = simplify(ret_origin(F, ic))
    ls = leafs(r)
    if f"F:{PA}.total_size" in ls and any(l.endswith('::peek_front') for l in ls if l.startswith('C:')) and \
            (is_call(r, '::eq') or (r[0] == 'bin' and r[1] == 'Eq')):
        ctx.ok(('is_complete',), sample=dict(is_complete='total_size == Some(assembler.peek_front())'))
    else:
        ctx.bad("is_complete|shape", f"PacketAssembler::is_complete = {show(r)[:90]} is not total_size == Some(peek_front())", body=ic)
    a = ctx.method(PA, 'assemble')
    sites = [x[0] for x in a.calls() if (a.callee_name(x[1]) or '') == F.method(PA, 'reset').key]
    ctx.need(sites, "assemble resets the slot")
    bad = unguarded(F, a, sites, p_call(lambda n: n == ic.key, True))
    if bad:
        ctx.bad("assemble|unguarded", "PacketAssembler::assemble hands out the buffer without is_complete()", body=a, bb=sites[0])
    else:
        ctx.ok(('assemble', 'behind-is_complete'))
    # set_total_size refuses a different size
    st = ctx.method(PA, 'set_total_size')
    g = guard_edges(F, st, lambda f: f[0] == 'rel' and f[1] == 'Ne' and f"F:{PA}.total_size" in leafs(f[2]) | leafs(f[3]) and 'A:2' in leafs(f[2]) | leafs(f[3]))
    if g:
        ctx.ok(('set_total_size', 'refuses-mismatch'))
    else:
        ctx.bad("set_total_size|mismatch", "set_total_size does not compare with a previously announced total size", body=st)
    # who frees a slot
    for w in F.writers_of(PA, 'key', kinds=('store',)):
        b = F.body(w['fn'])
        fnm = w['fn'].rsplit('::', 1)[-1]
        o = simplify(store_origin(F, b, w))
        if o == ('variant', 'std::option::Option::None'):
            if fnm in ('reset', 'new'):
                ctx.ok((fnm, 'key=None'))
            else:
                ctx.bad(f"{fnm}|key=None", f"{w['fn']} frees a reassembly slot (key = None) without PacketAssembler::reset(): stale ranges / total size "
                        "survive into the next datagram using the slot", body=b, bb=w['bb'])
    from ..lib import must_write_fields
    rs = ctx.method(PA, 'reset')
    mw = must_write_fields(F, rs, PA)
    for fld in ('key', 'total_size', 'expires_at'):
        if fld in mw:
            ctx.ok(('reset', fld))
        else:
            ctx.bad(f"reset|{fld}", f"PacketAssembler::reset does not clear `{fld}`", body=rs)
    if any((rs.callee_name(c) or '').endswith('Assembler::clear') for _, c, *_ in rs.calls()):
        ctx.ok(('reset', 'assembler.clear'))
    else:
        ctx.bad("reset|assembler", "PacketAssembler::reset does not clear the range tracker", body=rs)


@rule('R12.5', ['C12'], floor=2, clause='all fragments of one datagram carry the identification chosen at its start')
def r12_5(ctx):
    F = ctx.F
    ws = F.writers_of('iface::fragmentation::Ipv4Fragmenter', 'ident', kinds=('store',))
    ctx.need(ws, "stores to Ipv4Fragmenter.ident")
    for w in ws:
        fnm = (F.body(w['fn']).meta.get('root') or w['fn']).rsplit('::', 1)[-1]
        if fnm in ('dispatch_ip', 'reset', 'new'):
            ctx.ok((fnm, 'ident'))
        else:
            ctx.bad(f"{fnm}|ident", f"Ipv4Fragmenter.ident written in {fnm}", body=F.body(w['fn']), bb=w['bb'])
    b = ctx.method(IFI, 'dispatch_ipv4_frag')
    si = F.method('wire::ipv4::Packet', 'set_ident')
    okv = False
    for body in [b] + F.closures_of(b.key):
        for x in body.calls():
            if body.callee_name(x[1]) == si.key:
                o = F.origin.operand(body, x[2][1], x[0], len(body.blocks[x[0]]['s']))
                ls = leafs(o)
                if 'F:iface::fragmentation::Ipv4Fragmenter.ident' in ls or any(l.startswith('U:') and l.endswith('ipv4__ident') for l in ls):
                    okv = True
    if okv:
        ctx.ok(('frag', 'ident-from-fragmenter'))
    else:
        ctx.bad("dispatch_ipv4_frag|ident", "follow-up fragments do not carry the stored identification", body=b)
