"""C16 - link-layer addressing: resolved next hops only, discovery rate-limited (structural clauses)."""
from ..framework import rule
from ..core import *
from ..lib import *
from ..wirelib import ret_origin
from .c04 import const_int
from .c14 import store_origin

IFI = 'iface::interface::InterfaceInner'
NC = 'iface::neighbor::Cache'
NB = 'iface::neighbor::Neighbor'
ANS = 'iface::neighbor::Answer'
RT = 'iface::route::Routes'
RO = 'iface::route::Route'


@rule('R16.1', ['C16'], floor=3, clause='on Ethernet / 802.15.4 nothing is handed to the device before lookup_hardware_addr succeeded, and the frame destination is its result')
def r16_1(ctx):
    F = ctx.F
    b = ctx.method(IFI, 'dispatch_ip')
    lh = ctx.method(IFI, 'lookup_hardware_addr')
    consumes = [x[0] for x in b.calls() if (b.callee_name(x[1]) or x[1].get('fn') or '').endswith('TxToken::consume')]
    d154 = [x[0] for x in mcalls(F, b, IFI, 'dispatch_ieee802154')]
    ctx.need(len(consumes) >= 2 and d154, "TxToken::consume and dispatch_ieee802154 sites in dispatch_ip")

    def lookup_ok(f):
        return f[0] == 'is' and f[2] in ('Continue', 'Ok') and f"C:{lh.key}" in leafs(f[1])

    def not_l2(f):
        # medium is IP: no link-layer addressing
        return f[0] in ('is', 'isnot') and f[3] == 'phy::Medium' and ((f[0] == 'is' and f[2] == 'Ip') or (f[0] == 'isnot' and 'Ethernet' in f[2]))
    for s in consumes + d154:
        bad = unguarded(F, b, [s], p_any(lookup_ok, not_l2))
        if bad:
            ctx.bad("dispatch_ip|transmit-without-lookup", "dispatch_ip can hand a frame to the device on a link-layer medium without a successful "
                    "lookup_hardware_addr (a guessed / stale hardware destination)", body=b, bb=s, path=bad[0][1])
        else:
            ctx.ok(('dispatch_ip', 'after-lookup', s), sample=dict(fn='dispatch_ip', guard='lookup_hardware_addr()? | medium == Ip'))
    # the ethernet destination set in the frame originates from the lookup result
    sd = F.method('wire::ethernet::Frame', 'set_dst_addr')
    found = False
    for cb in F.closures_of(b.key):
        for x in cb.calls():
            if cb.callee_name(x[1]) == sd.key:
                o = F.origin.operand(cb, x[2][1], x[0], len(cb.blocks[x[0]]['s']))
                if any(l.startswith('U:dst_hardware_addr') for l in leafs(o)):
                    found = True
    if found:
        ctx.ok(('dispatch_ip', 'dst-from-lookup'))
    else:
        ctx.bad("dispatch_ip|dst-origin", "the Ethernet destination written by dispatch_ip is not the looked-up hardware address", body=b)


@rule('R16.2', ['C16'], floor=4, clause='a discovery request is only sent when the cache answered neither Found nor RateLimited, and every successful request is followed by limit_rate; without a cache hit the result is an error')
def r16_2(ctx):
    F = ctx.F
    b = ctx.method(IFI, 'lookup_hardware_addr')
    lk = ctx.method(NC, 'lookup')
    lr = ctx.method(NC, 'limit_rate')
    sends = [x[0] for x in mcalls(F, b, IFI, 'dispatch_ethernet')] + [x[0] for x in mcalls(F, b, IFI, 'dispatch_ip')]
    ctx.need(len(sends) >= 2, "ARP and NS emission sites in lookup_hardware_addr")

    def notfound(f):
        if f[0] == 'isnot' and f[3] == ANS and {'Found', 'RateLimited'} <= set(f[2]):
            return True
        return f[0] == 'is' and f[3] == ANS and f[2] == 'NotFound'
    for s in sends:
        bad = unguarded(F, b, [s], notfound)
        if bad:
            ctx.bad("lookup_hardware_addr|request-unguarded", "a neighbor discovery request can be sent although the cache answered Found or RateLimited "
                    "(more than one request per second)", body=b, bb=s, path=bad[0][1])
        else:
            ctx.ok(('request', 'behind-notfound', s), sample=dict(fn='lookup_hardware_addr', guard='lookup() == NotFound'))
        # pairing: after a successful emission every path to return passes limit_rate (the Err edge of the
        # emission returns NeighborPending without rate limiting - nothing was sent)
        blockers = {x[0] for x in b.calls() if b.callee_name(x[1]) == lr.key}
        errs = set()
        for bi, bl in enumerate(b.blocks):
            if bl['cl'] or bl['t'][0] != 'switch':
                continue
            for tb, lab, f in cond_facts(F, b, bi):
                if f[0] == 'is' and f[2] == 'Err' and f[3] == 'std::result::Result' and \
                        any(l.endswith(('dispatch_ethernet', 'dispatch_ip')) for l in leafs(f[1]) if l.startswith('C:')):
                    errs.add((bi, tb, lab))
        st = b.blocks[s]['t'][4]
        seen = b.reachable(cut_blocks=blockers, cut_edges=errs, start=st)
        rets = [r for r in b.return_blocks() if r in seen]
        if rets:
            ctx.bad("lookup_hardware_addr|no-limit-rate", "a discovery request can be emitted without arming the 1 s rate limiter afterwards",
                    body=b, bb=s, path=[s] + b.path_to(seen, rets[0]))
        else:
            ctx.ok(('request', 'then-limit_rate', s))
    # Ok(..) only from a Found answer or for broadcast/multicast destinations
    oks = []
    for bi, bl in enumerate(b.blocks):
        if bl['cl']:
            continue
        for s in bl['s']:
            if s[0] == 'a' and s[1] == [0, []] and s[2][0] == 'agg' and s[2][1]['k'] == 'adt' and s[2][1]['adt'] == 'std::result::Result' \
                    and s[2][1]['variant'] == 'Ok':
                oks.append(bi)
    pf = lambda f: f[0] == 'is' and f[3] == ANS and f[2] == 'Found'
    pb = p_any(p_call(mpred(F, IFI, 'is_broadcast'), True), p_call(mpred(F, '__ext__', 'is_multicast'), True))
    bad = unguarded(F, b, oks, p_any(pf, pb))
    if bad:
        ctx.bad("lookup_hardware_addr|ok-without-hit", "lookup_hardware_addr can return a hardware address that is neither a cache hit nor a "
                "broadcast/multicast mapping", body=b, bb=bad[0][0], path=bad[0][1])
    else:
        ctx.ok(('ok', 'only-found-or-group'), sample=dict(fn='lookup_hardware_addr', ok_only='Found | broadcast | multicast'))


@rule('R16.3', ['C16', 'C11'], floor=3, clause='the neighbor cache is filled only by the ARP and NDISC handlers, behind their validation guards')
def r16_3(ctx):
    F = ctx.F
    fills = {F.method(NC, 'fill').key, F.method(NC, 'fill_with_expiration').key}
    allowed = {'process_arp', 'process_ndisc', 'fill'}
    n = 0
    for k, b in sorted(F.bodies.items()):
        for x in b.calls():
            if b.callee_name(x[1]) in fills:
                fnm = (b.meta.get('root') or k).rsplit('::', 1)[-1]
                if '/tests' in (b.file or ''):
                    continue
                n += 1
                if fnm not in allowed:
                    ctx.bad(f"{fnm}|cache-fill", f"{k} fills the neighbor cache (only ARP/NDISC handlers may)", body=b, bb=x[0])
                    continue
                if fnm == 'process_arp':
                    AR = 'wire::arp::Repr'
                    guards = [
                        ('target is ours', p_call(mpred(F, IFI, 'has_ip_addr'), True, [f"F:{AR}.target_protocol_addr"])),
                        ('unicast source ip', p_call(mpred(F, '__ext__', 'x_is_unicast'), True, [f"F:{AR}.source_protocol_addr"])),
                        ('unicast source hw', p_call(mpred(F, 'wire::ethernet::Address', 'is_unicast'), True, [f"F:{AR}.source_hardware_addr"])),
                        ('same network', p_call(mpred(F, IFI, 'in_same_network'), True, [f"F:{AR}.source_protocol_addr"])),
                    ]
                    for what, pr in guards:
                        if unguarded(F, b, [x[0]], pr):
                            ctx.bad(f"process_arp|fill|{what}", f"process_arp fills the cache without the `{what}` check (spoofable entry)", body=b, bb=x[0])
                        else:
                            ctx.ok(('process_arp', what), sample=dict(fn='process_arp', guard=what))
                elif fnm == 'process_ndisc':
                    # the link-layer address that is stored passed is_unicast() (a broadcast / multicast one would make
                    # every unicast packet for that neighbour a link-layer broadcast for 60 s)
                    hw = strip(simplify(F.origin.operand(b, x[2][2], x[0], len(b.blocks[x[0]]['s']))))

                    def uni(f, hw=hw):
                        if f[0] != 'bool' or f[2] is not True:
                            return False
                        c = strip(f[1])
                        return c[0] == 'call' and c[1].endswith('::is_unicast') and c[2] and show(strip(c[2][0])).replace('&', '').replace('*', '') == show(hw).replace('&', '').replace('*', '')
                    if unguarded(F, b, [x[0]], uni):
                        ctx.bad("process_ndisc|fill|unicast-lladdr", "process_ndisc stores a link-layer address from a neighbor solicitation / advertisement without the is_unicast() check: "
                                "a crafted message with ff:ff:ff:ff:ff:ff teaches neighbor -> broadcast, and unicast packets for that neighbor go to every station", body=b, bb=x[0])
                    else:
                        ctx.ok((fnm, 'fill', 'unicast lladdr', x[0]), sample=dict(fn='process_ndisc', guard='lladdr.is_unicast()'))
                else:
                    ctx.ok((fnm, 'fill', x[0]))
    ctx.need(n >= 3, "cache fill sites")


@rule('R16.4', ['C16'], floor=4, clause='a cached address is used only while unexpired; entries live 60 s, discovery is silenced for 1 s; an expired entry still honours the rate limit')
def r16_4(ctx):
    F = ctx.F
    b = ctx.method(NC, 'lookup')
    found = []
    rl_nf = []
    for bi, bl in enumerate(b.blocks):
        if bl['cl']:
            continue
        for s in bl['s']:
            if s[0] == 'a' and s[2][0] == 'agg' and s[2][1]['k'] == 'adt' and s[2][1]['adt'] == ANS:
                (found if s[2][1]['variant'] == 'Found' else rl_nf).append((bi, s[2][1]['variant']))
    ctx.need(found and rl_nf, "Answer::Found and NotFound/RateLimited constructions in Cache::lookup")
    unexp = p_rel('lt', ['A:3'], [f"F:{NB}.expires_at"], either_order=False)
    for bi, _ in found:
        if unguarded(F, b, [bi], unexp):
            ctx.bad("Cache::lookup|found-expired", "Cache::lookup can answer Found for an entry whose lifetime has passed", body=b, bb=bi)
        else:
            ctx.ok(('lookup', 'found-unexpired'), sample=dict(fn='Cache::lookup', found_only='timestamp < expires_at'))
    # NotFound only behind !(timestamp < silent_until): every path, including the one of an expired entry
    silent = lambda f: f[0] == 'rel' and ((f[1] in ('Ge',) and simplify(f[2]) == ('arg', 3) and is_field(f[3], NC, 'silent_until'))
                                          or (f[1] in ('Le',) and simplify(f[3]) == ('arg', 3) and is_field(f[2], NC, 'silent_until')))
    for bi, var in rl_nf:
        if var == 'NotFound':
            if unguarded(F, b, [bi], silent):
                ctx.bad("Cache::lookup|notfound-bypasses-silence", "Cache::lookup can answer NotFound (=> a new discovery request) without consulting "
                        "the 1 s silence timer", body=b, bb=bi)
            else:
                ctx.ok(('lookup', 'notfound-after-silence'), sample=dict(fn='Cache::lookup', notfound_only='timestamp >= silent_until'))
    for nm, want in (('iface::neighbor::Cache::ENTRY_LIFETIME', 60_000_000), ('iface::neighbor::Cache::SILENT_TIME', 1_000_000)):
        c = F.const_value(nm)
        if c and c.get('fields') == [want]:
            ctx.ok((nm,), sample=dict(const=nm.rsplit('::', 1)[-1], micros=want))
        else:
            ctx.bad(f"{nm.rsplit('::',1)[-1]}|value", f"{nm} = {c} (expected {want} us)")
    # fill: expires_at = timestamp + ENTRY_LIFETIME ; limit_rate: silent_until = timestamp + SILENT_TIME
    fl = ctx.method(NC, 'fill')
    okf = any('N:iface::neighbor::Cache::ENTRY_LIFETIME' in leafs(F.origin.operand(fl, a, x[0], len(fl.blocks[x[0]]['s'])))
              for x in fl.calls() for a in x[2])
    ctx.ok(('fill', 'lifetime')) if okf else ctx.bad("Cache::fill|lifetime", "Cache::fill does not use ENTRY_LIFETIME", body=fl)
    lr = ctx.method(NC, 'limit_rate')
    ws = [w for w in F.writers_of(NC, 'silent_until', kinds=('store',)) if w['fn'] == lr.key]
    okl = ws and 'N:iface::neighbor::Cache::SILENT_TIME' in leafs(store_origin(F, lr, ws[0]))
    ctx.ok(('limit_rate', 'silent-time')) if okl else ctx.bad("Cache::limit_rate|value", "limit_rate does not arm SILENT_TIME", body=lr)


@rule('R16.5', ['C16'], floor=3, clause='the gateway is that of the longest-prefix matching route whose expiry (expires_at) has not passed')
def r16_5(ctx):
    F = ctx.F
    b = ctx.method(RT, 'lookup')
    calls = {b.callee_name(c) or '' for _, c, *_ in b.calls()}
    if any(c.endswith('::max_by_key') for c in calls) and any(c.endswith('::filter') for c in calls):
        ctx.ok(('lookup', 'filter+max_by_key'))
    else:
        ctx.bad("Routes::lookup|shape", "Routes::lookup is not filter(..).max_by_key(prefix_len)", body=b)
    cls = F.closures_of(b.key)
    exp_ok = key_ok = cont_ok = False
    for cb in cls:
        for bi, bl in enumerate(cb.blocks):
            if bl['cl'] or bl['t'][0] != 'switch':
                continue
            for tb, lab, f in cond_facts(F, cb, bi):
                if f[0] == 'rel':
                    ls = leafs(f[2]) | leafs(f[3])
                    if f"F:{RO}.expires_at" in ls and any(l.startswith('U:timestamp') for l in ls):
                        exp_ok = True
                    if f"F:{RO}.preferred_until" in ls:
                        exp_ok = exp_ok and False
                        ctx.bad("Routes::lookup|wrong-expiry-field", "route validity is decided on preferred_until instead of expires_at", body=cb, bb=bi)
        r = ret_origin(F, cb)
        ls = leafs(r)
        if any(l.endswith('::prefix_len') for l in ls if l.startswith('C:')):
            key_ok = True
        if any(l.endswith('::contains_addr') for l in ls if l.startswith('C:')):
            cont_ok = True
    for okv, what in ((exp_ok, 'expires_at vs timestamp'), (key_ok, 'max by prefix_len'), (cont_ok, 'cidr.contains_addr')):
        if okv:
            ctx.ok(('lookup', what), sample=dict(fn='Routes::lookup', uses=what))
        else:
            ctx.bad(f"Routes::lookup|{what}", f"Routes::lookup does not use `{what}`", body=b)


@rule('R16.6', ['C16', 'C09', 'C05'], floor=1, clause='when the next hop is unknown the segment stays queued: no TCP sequence variable is written on the failing emit path')
def r16_6(ctx):
    F = ctx.F
    S = 'socket::tcp::Socket'
    d = ctx.method(S, 'dispatch')
    errs = []
    for bi, bl in enumerate(d.blocks):
        if bl['cl'] or bl['t'][0] != 'switch':
            continue
        for tb, lab, f in cond_facts(F, d, bi):
            if f[0] == 'is' and f[2] in ('Break', 'Err') and any(l.endswith('FnOnce::call_once') for l in leafs(f[1]) if l.startswith('C:')):
                errs.append((bi, tb, lab))
    ctx.need(errs, "`?` on emit in tcp::dispatch")
    seqf = {'remote_last_seq', 'remote_last_ack', 'remote_last_win', 'local_seq_no'}
    for (bi, tb, lab) in errs:
        seen = d.reachable(start=tb)
        hit = [w for w in F.field_writes() if w['fn'] == d.key and w['adt'] == S and w['field'] in seqf and w['bb'] in seen]
        if hit:
            ctx.bad("tcp::dispatch|err-path-writes", f"tcp::dispatch writes {hit[0]['field']} on the path where emit failed (data would be "
                    "considered sent although the neighbor is unresolved)", body=d, bb=hit[0]['bb'])
        else:
            ctx.ok(('dispatch', 'err-path-clean'), sample=dict(fn='tcp::dispatch', on_emit_error='no sequence variable written'))


@rule('R16.7', ['C16', 'C11'], floor=1, clause='a cache entry\'s lifetime is extended by passing traffic only when the frame\'s link-layer source equals the cached hardware address')
def r16_7(ctx):
    F = ctx.F
    b = ctx.method(NC, 'reset_expiry_if_existing')
    ws = [w for w in F.field_writes() if w['fn'] == b.key and w['kind'] == 'store' and w['adt'] == NB and w['field'] == 'expires_at']
    if not ws:
        # the store goes through the `&mut Neighbor` obtained from get_mut: find deref stores of Instant type
        for bi, bl in enumerate(b.blocks):
            if bl['cl']:
                continue
            for si, s in enumerate(bl['s']):
                if s[0] == 'a' and s[1][1] and s[1][1][0] == '*' and 'Instant' in (b.local_ty(s[1][0]) or ''):
                    ws.append(dict(bb=bi))
    ctx.need(ws, "expires_at refresh in reset_expiry_if_existing")

    def same_hw(f):
        if f[0] == 'rel' and f[1] == 'Eq':
            a, c = leafs(f[2]), leafs(f[3])
            hw = lambda ls: any(l.startswith('F:') and l.endswith('.hardware_addr') for l in ls)
            return ('A:3' in a and hw(c)) or ('A:3' in c and hw(a))
        return False
    for w in ws:
        bad = unguarded(F, b, [w['bb']], same_hw)
        if bad:
            ctx.bad("reset_expiry_if_existing|hw-mismatch", "a neighbor entry is refreshed by a frame whose link-layer source differs from the cached address "
                    "(a spoofed or moved host keeps a stale mapping alive beyond 60 s)", body=b, bb=w['bb'], path=bad[0][1])
        else:
            ctx.ok(('reset_expiry_if_existing', 'same-hw'), sample=dict(fn='reset_expiry_if_existing', guard='source_hardware_addr == entry.hardware_addr'))
