use smoltcp::iface::{Config, Interface, SocketSet};
use smoltcp::phy::{self, Device, DeviceCapabilities, Medium};
use smoltcp::socket::dns;
use smoltcp::time::{Duration, Instant};
use smoltcp::wire::{DnsQueryType, HardwareAddress, IpAddress, IpCidr};

struct Cap {
    tx: Vec<Vec<u8>>,
}
struct Tx<'a>(&'a mut Vec<Vec<u8>>);
struct Rx;
impl phy::RxToken for Rx {
    fn consume<R, F: FnOnce(&[u8]) -> R>(self, f: F) -> R {
        f(&[])
    }
}
impl<'a> phy::TxToken for Tx<'a> {
    fn consume<R, F: FnOnce(&mut [u8]) -> R>(self, len: usize, f: F) -> R {
        let mut b = vec![0; len];
        let r = f(&mut b);
        self.0.push(b);
        r
    }
}
impl Device for Cap {
    type RxToken<'a> = Rx;
    type TxToken<'a> = Tx<'a>;
    fn receive(&mut self, _t: Instant) -> Option<(Rx, Tx<'_>)> {
        None
    }
    fn transmit(&mut self, _t: Instant) -> Option<Tx<'_>> {
        Some(Tx(&mut self.tx))
    }
    fn capabilities(&self) -> DeviceCapabilities {
        let mut c = DeviceCapabilities::default();
        c.medium = Medium::Ip;
        c.max_transmission_unit = 1500;
        c
    }
}

#[test]
fn f13_dns_poll_at_covers_server_timeout() {
    let mut device = Cap { tx: vec![] };
    let mut iface = Interface::new(Config::new(HardwareAddress::Ip), &mut device, Instant::ZERO);
    iface.update_ip_addrs(|a| a.push(IpCidr::new(IpAddress::v4(192, 168, 1, 1), 24)).unwrap());
    let mut sockets = SocketSet::new(vec![]);
    let servers = [IpAddress::v4(192, 168, 1, 2), IpAddress::v4(192, 168, 1, 3)];
    let mut sock = dns::Socket::new(&servers, vec![]);
    sock.start_query(iface.context(), "example.com", DnsQueryType::A).unwrap();
    sockets.add(sock);
    let mut now = Instant::from_millis(0);
    for _ in 0..12 {
        iface.poll(now, &mut device, &mut sockets);
        device.tx.clear();
        let at = match iface.poll_at(now, &sockets) {
            Some(a) => a,
            None => return,
        };
        let mut probe = now + Duration::from_secs(1);
        while probe < at {
            iface.poll(probe, &mut device, &mut sockets);
            assert!(
                device.tx.is_empty(),
                "poll at {} transmitted although poll_at (asked at {}) returned {}",
                probe, now, at
            );
            probe += Duration::from_secs(1);
        }
        now = at.max(now + Duration::from_millis(1));
    }
}
