#!/usr/bin/env python3
"""Regenerates section 10 of DESIGN.md from triage/design_report.md.in, the rule registry, seeded/RESULTS.json and
triage/first_run.json."""
import json, os, re, sys, importlib, pkgutil
V = os.path.dirname(os.path.dirname(os.path.abspath(__file__)))
sys.path.insert(0, V)
from sa import framework
import sa.rules as rp
for m in pkgutil.iter_modules(rp.__path__):
    importlib.import_module(f"sa.rules.{m.name}")
from sa import tags
tags.apply(framework.RULES)
rs = sorted(framework.RULES, key=lambda r: (int(r['id'][1:3]), r['id']))
rt = ["| rule | properties | floor | clause |", "|---|---|---|---|"]
for r in rs:
    rt.append(f"| {r['id']} | {', '.join(r['props'])} | {r['floor']} | {r['clause'].replace('|', '/')} |")
fr = json.load(open(os.path.join(V, 'triage/first_run.json')))
fr.pop('_comment', None)
res = json.load(open(os.path.join(V, 'seeded/RESULTS.json')))
st = ["| seed | changed (file: first removed line) | first run | now caught by |", "|---|---|---|---|"]
for s in sorted(res, key=lambda x: (x.split('-s')[0], int(x.split('-s')[1]))):
    d = open(os.path.join(V, 'seeded', s, 'patch.diff')).read()
    files = re.findall(r'^\+\+\+ b/(.*)$', d, re.M)
    minus = [l[1:].strip() for l in d.splitlines() if l.startswith('-') and not l.startswith('---') and l[1:].strip()]
    what = (minus[0] if minus else '(addition)')[:60].replace('|', '/')
    st.append(f"| {s} | {files[0] if files else '?'}: `{what}` | {fr.get(s, '?')} | {', '.join(res[s].get('rules', [])) or '**not caught**'} |")
rep = open(os.path.join(V, 'triage/design_report.md.in')).read()
caught = sum(1 for s in res if res[s].get('rules'))
rep = rep.replace('@SEEDTABLE@', '\n'.join(st)).replace('@RULETABLE@', '\n'.join(rt)).replace('@CAUGHT@', f"{caught} of {len(res)}")
p = os.path.join(V, 'DESIGN.md')
s = open(p).read()
m = "\n## 10. Build report"
if m in s:
    s = s[:s.index(m)]
open(p, 'w').write(s.rstrip() + "\n" + rep)
print(f"{len(rs)} rules, {len(res)} seeds")
