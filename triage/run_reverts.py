#!/usr/bin/env python3
"""run_reverts.py: apply the reverse patch of every repair (triage/reverts/revert-f<N>.diff) to a scratch copy of /repo and run the
check of the property the repair is recorded under (known_findings.json `fixed`): the defect must be reported again.
A reverse patch that no longer applies (a later repair rewrote the same lines) is listed as such."""
import json, os, re, sys
from concurrent.futures import ProcessPoolExecutor
V = os.path.dirname(os.path.dirname(os.path.abspath(__file__)))
sys.path.insert(0, V)
from sa import variants


def job(a):
    i, path, prop = a
    r = variants.run_patch(path, [prop], worker=os.getpid())
    if 'ok' in r:
        return (os.path.basename(path), prop, 'does not apply', '')
    x = r[prop]
    rules = sorted({re.search(r'rule=(\S+)', f).group(1) for f in x['findings']})
    return (os.path.basename(path), prop, 'reported' if x['rc'] == 1 and rules else f"NOT reported (rc={x['rc']})", ','.join(rules))


def main():
    kf = json.load(open(os.path.join(V, 'known_findings.json')))
    prop_of = {}
    for e in kf['fixed']:
        m = re.match(r'fixed: property=(C\d+) ', e)
        for t in re.findall(r'\bF(\d+[a-z]?)\b', e):
            prop_of.setdefault(t.lower(), m.group(1))
    jobs = []
    for i, f in enumerate(sorted(os.listdir(os.path.join(V, 'triage/reverts')))):
        m = re.match(r'revert-f(\d+[a-z]?)(?:-f\d+)?\.diff$', f)
        if not m:
            continue
        p = prop_of.get(m.group(1))
        if p is None:
            print(f"{f}: no fixed entry names F{m.group(1)}")
            continue
        jobs.append((i, os.path.join(V, 'triage/reverts', f), p))
    bad = 0
    CFG_B_ONLY = {'revert-f27.diff'}      # feature proto-rpl: decided by R07.11 in the thorough tier (cfg B) only
    with ProcessPoolExecutor(8) as ex:
        # one worker id per concurrent slot
        for res in ex.map(job, jobs, chunksize=1):
            print('%-22s %-4s %-28s %s' % res)
            if res[2].startswith('NOT') and res[0] not in CFG_B_ONLY:
                bad += 1
    variants.cleanup()
    sys.exit(1 if bad else 0)


if __name__ == '__main__':
    main()
