

@rule('R18.12', ['C18'], floor=1, clause='a lease is taken in the Requesting state only once a REQUEST has gone out: the (Requesting, Ack) arm of process() installs the configuration behind a test that the request counter is not zero (DISCOVER and REQUEST share the transaction id, so an ACK sent right after the OFFER would match)')
def r18_12(ctx):
    F = ctx.F
    D = 'socket::dhcpv4::Socket'
    RS = 'socket::dhcpv4::RenewState'
    RQ = 'socket::dhcpv4::RequestState'
    b = ctx.method(D, 'process')
    sites = [bi for bi, si, var in agg_sites(b, RS)]
    ctx.need(sites, "RenewState construction in dhcpv4 process()")
    sent = lambda f: f[0] == 'rel' and any(l.endswith(f"{RQ}.retry") for l in leafs(f[2]) | leafs(f[3])) and \
        ((f[1] in ('Gt', 'Ne') and const_of(strip(f[3])) == 0) or (f[1] == 'Ge' and (const_of(strip(f[3])) or 0) >= 1) or (f[1] == 'Lt' and const_of(strip(f[2])) == 0))
    bad = unguarded(F, b, sites, sent)
    if bad:
        ctx.bad("dhcpv4::process|ack-before-request", "in the Requesting state process() takes a lease from an ACK without knowing that a REQUEST was ever sent (retry counter not examined): "
                "an ACK carrying the DISCOVER's transaction id that arrives between the OFFER and the first REQUEST configures the client", body=b, bb=bad[0][0], path=bad[0][1])
    else:
        ctx.ok(('dhcpv4::process', 'ack after request'), sample=dict(arm='(Requesting, Ack)', guard='state.retry > 0'))
