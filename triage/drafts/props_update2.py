import re
p='/verif/sa/props.py'; s=open(p).read()
ADD = {
 'C02': " Rounds 8-9: a probe with data in flight re-offers SND.UNA (R02.18, F63); the retransmission timer is idled only by an ACK covering everything sent (R02.19); the probe timer is armed only with data queued (R02.17).",
 'C03': " Rounds 8-9: DHCP server address only from a unicast source (R03.15, F57); ack_reply sets the IP payload length after the last option (R03.16); the decompressor accepts every header kind the egress sends uncompressed (R20.13, F60).",
 'C04': " Rounds 8-9: announced window scale clamped to 14 (R04.11, F59).",
 'C05': " Rounds 8-9: local MSS from the segment's own IP header length (R05.13); default MSS 536 (R05.14); every accepted segment updates the send window (R05.15).",
 'C06': " Rounds 8-9: mld buffer_len has no constant arm (R06.20, F56); a DHCP option may carry 255 octets (R06.21); multicast scope octet from the wire except in the 8-bit form (R20.11).",
 'C07': " Rounds 8-9: IPHC in-line address sizes cover what the address getters read, per mode combination (R07.17); check_len reads through nested accessors only behind a covering length test (R07.16).",
 'C08': " Rounds 8-9: tx() governs fill_checksum and rx() verify_checksum (R08.12); the raw sum is stored only where it is known to be non-zero, whatever the address family (R08.7).",
 'C09': " Rounds 8-9: an empty UDP datagram is valid (R09.14); icmpv4 parse validates the quoted header only (R09.15, F62).",
 'C11': " Rounds 8-9: listen_endpoint restored as a whole after a RST in SYN-RECEIVED (R11.12); a RST is judged by its bare sequence number (R17.11, F61).",
 'C12': " Rounds 8-9: assemble() answers buffer[..total_size] (R12.12).",
 'C13': " Rounds 8-9: has_neighbor() answers true without the cache only on Medium::Ip (R13.16).",
 'C16': " Rounds 8-9: SLAAC route lifetime is the advertised one (R16.12).",
 'C17': " Rounds 8-9: RST left of the window is dropped whatever text it carries (R17.11, F61); the probe timer cannot replace the TIME-WAIT timer (R02.17).",
 'C18': " Rounds 8-9: a lease only after a REQUEST went out (R18.12, F55); your_ip is not the broadcast address of its subnet (R18.13, F58); server address unicast (R03.15, F57).",
 'C20': " Rounds 8-9: FRAG1 size from the 125-octet limit (R20.12); egress/decompressor agreement on uncompressed headers (R20.13, F60); multicast scope (R20.11).",
}
for pid, add in ADD.items():
    m = re.search(r"P\('%s', \"((?:[^\"\\]|\\.)*)\"," % pid, s)
    assert m, pid
    if 'Rounds 8-9' in m.group(1):
        continue
    s = s[:m.end(1)] + add.replace('"', "'") + s[m.end(1):]
open(p,'w').write(s)
print('ok')
