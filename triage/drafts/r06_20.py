

@rule('R06.20', ['C06', 'C10'], floor=3, clause='mld::Repr::buffer_len() declares what emit writes for every kind of message: each arm of buffer_len depends on the variable part of its variant (the source list of a query, the record data of a report, the number of records of a report given as a record list) - none is a constant')
def r06_20(ctx):
    F = ctx.F
    R = 'wire::mld::Repr'
    b = ctx.method(R, 'buffer_len')
    r = strip(simplify(ret_origin(F, b)))
    n = 0
    for a in alts(r):
        n += 1
        if const_of(a) is not None:
            ctx.bad("mld::Repr::buffer_len|constant-arm", f"one arm of mld::Repr::buffer_len() is the constant {const_of(a)} although emit writes a variable-length part behind the fixed header "
                    "(a report given as a list of records): emitting into a buffer of the declared length panics, and every user has to add the missing length itself", body=b)
        else:
            ctx.ok(('mld::buffer_len', show(a)[:40]), sample=dict(arm=show(a)[:70]))
    ctx.need(n >= 3, f"arms of mld::Repr::buffer_len (found {n})")
