import re
p='/verif/sa/props.py'; s=open(p).read()
ADD = {
 'C01': " Rounds 6-7: enabling keep-alive never replaces a running retransmission / probe / TIME-WAIT timer (R02.8 table), the probe timer ends with the data it probes for (R02.15).",
 'C02': " Rounds 6-7: Timer::set_keep_alive in the transition table (R02.8); the zero-window-probe timer does not outlive the queued data (R02.15, repaired defect F50) and is armed by send() in every sending state (R02.16); NoRoute only for what retrying cannot mend (R09.10).",
 'C03': " Rounds 6-7: every range cut of the 6LoWPAN decompression output buffer is covered term by term by a dominating length test (R03.14, repaired remote panic F47); length validators do not read before they test (R07.16); no stale probe timer can make dispatch transmit for ever (R02.15, F50); server index bounded (R19.7).",
 'C05': " Rounds 6-7: the option loop ends at the end-of-list option (R05.12 converse); header_len reserves what each option occupies (R06.19).",
 'C06': " Rounds 6-7: tcp header_len agrees with TcpOption::buffer_len per option incl. the SACK header (R06.19); redirected-header option padding written (R06.17, F53); IPHC buffer_len and the address setters test the same octet ranges (R20.8); 16-bit IID filler restored (R20.10).",
 'C07': " Rounds 6-7: every check_len reads the buffer only behind a length test covering the read, directly or through an own accessor (R07.16); constant cuts are followed through the wire module's parser helpers, e.g. dns::Record::parse (R07.13).",
 'C08': " Rounds 6-7: the pseudo-header length is the extent of the summed data in every verify/fill_checksum (R08.11).",
 'C09': " Rounds 6-7: NoRoute only from routing / source lookups (R09.10); udp payload() ends at the length field (R09.11); raw sockets get header and payload of the same packet (R09.12, F49); ICMP sockets bound to a port decide on the quoted ports (R09.13, F54); unbound UDP socket matches nothing (R11.10); PacketBuffer hands out exactly metadata.size octets (R14.12).",
 'C10': " Rounds 6-7: UDP source from metadata / bound address only if unicast and not a broadcast address of the interface (R10.6, F52); IPv4 identification advances per datagram (R12.11); IPHC length/emitter ranges agree (R20.8).",
 'C11': " Rounds 6-7: a UDP datagram for port 0 reaches no unbound socket (R11.10); ::1 from a device is reported as the recorded finding F51 (R11.11); IPHC destination uses the destination context (R20.9).",
 'C12': " Rounds 6-7: the fits-the-buffer test is on the stored length (R12.10); identification counter wraps instead of sticking (R12.11).",
 'C13': " Rounds 6-7: every timestamped Interface entry point records inner.now first (R13.13); neighbor_missing always re-arms the silence (R13.14); the DNS socket never skips a due query without failing it (R13.15).",
 'C14': " Rounds 6-7: is_empty/is_full from the metadata ring (R14.10); offset arithmetic of get_(un)allocated only behind the offset test, which bounds it by the very quantity it is subtracted from (R14.11, F48); payloads of exactly metadata.size (R14.12).",
 'C15': " Rounds 6-7: add_then_remove_front has no refusal of its own (R15.10).",
 'C16': " Rounds 6-7: the cache is keyed by route()'s next hop (R16.11); NDISC link-layer addresses are stored only if unicast (R16.3); a rate-limited lookup is NeighborPending, not NoRoute (R09.10).",
 'C18': " Rounds 6-7: the stored lease instants are parse_ack's answer, element by element (R18.10); T1 <= T2 <= lease follows from the path tests for every choice of (T1, T2) (R18.11, exact linear entailment).",
 'C19': " Rounds 6-7: servers[server_idx] only behind server_idx < len (R19.7); constant cuts in dns::Record::parse covered (R07.13); no due query skipped (R13.15).",
 'C20': " Rounds 6-7: is_link_local is fe80::/64, the prefix the decompressor puts back (R20.7); buffer_len/setter range agreement (R20.8); context identifiers not swapped (R20.9); 00ff:fe00 filler restored with every 16-bit IID (R20.10); decompression output cuts covered (R03.14).",
}
for pid, add in ADD.items():
    m = re.search(r"P\('%s', \"((?:[^\"\\]|\\.)*)\"," % pid, s)
    assert m, pid
    if 'Rounds 6-7' in m.group(1):
        continue
    s = s[:m.end(1)] + add.replace('"', "'") + s[m.end(1):]
open(p,'w').write(s)
print('ok')
