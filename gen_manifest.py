#!/usr/bin/env python3
"""Generates MANIFEST.json from the claims table (kept in one place so it stays valid)."""
import json, os, sys
HERE = os.path.dirname(os.path.abspath(__file__))
sys.path.insert(0, HERE)
from sa.props import PROPS

CLAIMS = {
    'C17': dict(
        text="Static extraction (finite-domain abstract interpretation over the MIR, once per initial state) of the complete "
             "(function, from-state, control, to-state) relation of every store to tcp::Socket.state, checked to be a subset of the "
             "RFC 9293 diagram plus the additions the property names; who-may-write rule for Socket.state. A sound over-approximation: "
             "a transition outside the table cannot be taken by any input. Stimulus precision is limited to (state, control class, named guards).",
        design_ref="DESIGN.md §3 C17",
        note="Decides structural clauses R17.x only (necessary conditions), not the event-level behaviour over all histories. "
             "Trusted base: rustc nightly MIR + Instance resolution, smolfacts serialisation, sa/ Python core.",
        technique="static analysis: finite-domain abstract interpretation + who-may-write + guard must-pass-through over rustc MIR"),
    'C11': dict(
        text="Guard must-pass-through (edge cut on the MIR CFG, guards recognised by resolved callee + origin leaf sets + polarity) for: the Ethernet/802.15.4 destination filters, the IPv4/IPv6 destination and source filters in front of every upper-layer handler, accepts() before every socket process() (call sites enumerated over all iface code), unicast source/destination guards in front of every ICMP error and TCP RST construction, no RST in reply to RST, ICMP auto-replies only to echo requests.",
        design_ref="DESIGN.md §3 C11",
        note="Decides structural clauses R11.x only. The full address-class x protocol table and the loopback-from-network clause are not decided. Two ICMPv6 cases are listed in known_findings.json.",
        technique="static analysis: guard-dominance / must-pass-through over rustc MIR with origin-tree guard signatures"),
    'C07': dict(
        text="For all 24 wire view types with check_len: the lower bound of the buffer length established on every Ok path of check_len (interval evaluation of the compared expressions with getters inlined, per value of the discriminating getters such as message type / mode bits) covers every index and slice of every &self accessor, or the bytes that influence a slice bound are bytes check_len compared against the buffer length; no unsafe code reachable from wire::*; pretty-printers only touch checked views; every parser loop is iterator-driven or has a structural progress witness (cursor advance, strictly consuming parser, shrinking window); SACK validator/reader stride agreement.",
        design_ref="DESIGN.md §3 C07",
        note="Decides structural clauses R07.x (necessary conditions of panic-freedom/termination), not panic-freedom of every accessor on every byte string. ieee802154::Frame addressing/security accessors are reported as not decided. Trusted base as C17.",
        technique="static analysis: interval + byte-provenance comparison of accessor bounds against check_len guarantees over MIR origin trees; loop progress witnesses; call-graph unsafe audit"),
    'C08': dict(
        text="Pairing/ordering rules on the MIR CFG: every emitter of a checksummed header writes the checksum on every path, behind caps.tx(), as its last write; every header mutation after emit (fragment emitters) is followed by a re-fill; fill_checksum zeroes first, sums with the pseudo-header of its own arguments and stores the complement; every accepting path of the five parsers passes verify_checksum()==true or the rx-offloaded edge (UDP zero only for IPv4); verify_checksum returns true only as the result of a real sum.",
        design_ref="DESIGN.md §3 C08",
        note="The arithmetic clause (checksum::data equals the RFC 1071 sum for every length/alignment/content) quantifies over values and is NOT decided (no static argument without a solver). Trusted base as C17.",
        technique="static analysis: ordering/pairing and guard must-pass-through over rustc MIR"),
    'C01': dict(
        text="Structural clauses of the TCP receive/transmit paths decided on the MIR: a FIN is consumed only behind the no-hole and not-cut-at-the-right-edge guards (value-split abstract interpretation on the quashed control variable, product-graph cut); one placement (same offset/size into assembler and rx ring; enqueue = what the assembler reports); trimmed slice and offset have the max/min window shape; tx payload offset = SEG.SEQ - SND.UNA on both dispatch paths; ACK = RCV.NXT; sequence numbers ordered only through the wrapping comparison; reset() re-initialises every connection-scoped field; ingress parsers get the device's checksum caps.",
        design_ref="DESIGN.md §3 C01",
        note="Decides necessary structural conditions, not stream equality under all fault schedules (not decidable statically here). Trusted base as C17.",
        technique="static analysis: origin-tree value-shape rules + guard must-pass-through with value-split abstract interpretation over rustc MIR"),
    'C04': dict(
        text="Value-origin and who-may-write rules on tcp::Socket::process/dispatch/ack_reply: ACK number is RCV.NXT; accepted slice = payload[max(RCV.NXT,SEG.SEQ)-SEG.SEQ .. min(window_end,SEG.END)-SEG.SEQ] with window_end = last ack + (last window << shift); placement offset max(..)-RCV.NXT identical for assembler and ring; FIN guards (R01.1); writers and stored values of remote_seq_no; recorded advertised edge = emitted fields.",
        design_ref="DESIGN.md §3 C04",
        note="Exactly-once delivery over all segment histories is not decided. Trusted base as C17.",
        technique="static analysis: origin-tree pattern matching (value-shape), who-may-write, guard must-pass-through over rustc MIR"),
    'C05': dict(
        text="Every tx_buffer.get_allocated size in dispatch is a min-chain containing the peer-window limit and the effective MSS (and cwnd on the normal path); remote_mss only stored through the MIN_REMOTE_MSS clamp or DEFAULT_MSS; SYN window unscaled / others scaled; FIN only behind offset+len == tx_buffer.len(); payload only ever a view of the tx ring; tx ring consumed only by ACK processing and reset; seq/offset pairing (R01.3); reset() restores remote_mss.",
        design_ref="DESIGN.md §3 C05",
        note="Numeric bounds of every segment over all runs are not decided. Trusted base as C17.",
        technique="static analysis: origin-tree min-chain / leaf-set rules and guard must-pass-through over rustc MIR"),
    'C02': dict(
        text="Timer transition table and Timer::poll_at table extracted per variant by finite-domain abstract interpretation (every armed timer has a finite deadline; set_for_retransmit arms from every state but Close); retransmission timer re-armed after every sequence-occupying emit; tcp::poll_at mirrors every send predicate of dispatch (unmapped new predicates fail closed); cwnd >= 1 MSS at every store in Reno and CUBIC; no Option<Instant> combined with the derived ordering below Interface::poll_at; zero-window-probe arming guards.",
        design_ref="DESIGN.md §3 C02",
        note="Liveness itself (eventual delivery over all schedules) is not decided; these are necessary structural conditions. Trusted base as C17.",
        technique="static analysis: finite-domain abstract interpretation (transition tables), ordering/pairing, sibling agreement, abstract '>= k*mss' domain over rustc MIR"),
    'C13': dict(
        text="Sibling agreement between every dispatch/egress function and its poll_at: deadline fields compared with the clock in dispatch are read by poll_at (DNS, DHCPv4, datagram sockets), DNS takes the minimum over all queries; TCP: Timer tables, mirror of send predicates (R02.x); Meta::poll_at and egress_permitted take the same decision; Interface::poll_at short-circuits on a busy fragmenter, routes sockets through Meta, never combines Option deadlines with the derived ordering; Slaac::poll_at mirrors rs_required; every failed socket dispatch passes neighbor_missing before the loop continues.",
        design_ref="DESIGN.md §3 C13",
        note="The two-sided timing claim at every reachable state is not decided; IGMP/MLD report timers are outside the claim as in the property. Trusted base as C17.",
        technique="static analysis: sibling-agreement (leaf-set) and pairing rules, finite-domain tables over rustc MIR"),
    'C14': dict(
        text="Writer tables and value shapes of RingBuffer.length / read_at (increase only behind a free-space guard, decrease behind a fill guard, read position only advanced modulo capacity or rewound by clear()/empty enqueue); three clamps of get_allocated/get_unallocated; PacketBuffer: sibling agreement of the two enqueue entry points (incl. empty-ring rewind), padding dropped before every dequeue/peek, declined dequeue consumes 0.",
        design_ref="DESIGN.md §3 C14",
        note="FIFO model equivalence over all operation sequences is not decided (value/history quantified). Trusted base as C17.",
        technique="static analysis: who-may-write tables, origin-tree value shapes, guard must-pass-through, sibling agreement over rustc MIR"),
    'C15': dict(
        text="Effect-freedom on error paths (interprocedural, callee summaries): no store through self and no &mut-self call can precede an Err return in Assembler::add_contig_at, ::add and ::add_then_remove_front; TCP uses add_then_remove_front (the entry point that cannot refuse offset 0).",
        design_ref="DESIGN.md §3 C15",
        note="Exact union-of-ranges semantics and the exact refusal condition are not decided. Trusted base as C17.",
        technique="static analysis: effect-freedom on Err paths (T10) over the rustc MIR CFG with callee summaries"),
    'C12': dict(
        text="The single fragmenter is only (re)started behind an idle guard and sockets are not dequeued while fragments are pending; fragment size is (MTU-header) rounded down to 8 and both emitters use it; more-fragments = remaining != this payload; reassembly key has the four RFC 791 fields; delivery only behind total-size-known and contiguous-front==total; slots are only freed through reset(), which clears ranges and total size; all fragments carry the identification chosen at the start; header setters are followed by a checksum re-fill (R08.1).",
        design_ref="DESIGN.md §3 C12",
        note="Behaviour under permutation/duplication of fragments and gap limits is not decided. Trusted base as C17.",
        technique="static analysis: guard must-pass-through, value-origin shapes, who-may-write over rustc MIR"),
    'C16': dict(
        text="Guard/pairing rules: no frame handed to the device on a link-layer medium before lookup_hardware_addr succeeded, destination = its result; a discovery request only after NotFound and always followed by limit_rate; Ok only from a cache hit or group mapping; cache filled only by ARP/NDISC handlers behind their validation guards; Found only while unexpired, NotFound only after the silence timer (also for expired entries); 60 s / 1 s constants; route choice = filter(expires_at, contains) + max prefix; failing emit writes no TCP sequence variable.",
        design_ref="DESIGN.md §3 C16",
        note="Timing traces over long histories and cache eviction are not decided. Trusted base as C17.",
        technique="static analysis: guard must-pass-through, ordering/pairing, who-may-call, constants over rustc MIR"),
    'C18': dict(
        text="Every entry/refresh of the bound state in dhcpv4::process is dominated by the chaddr, xid, server-identifier, ACK and parse_ack guards; parse_ack accepts only behind mask-present, contiguous-mask and unicast-address guards (and the mask scanner's flag is monotone); the (state, message type) relation extracted by value-split abstract interpretation is within the RFC 2131 table; expires_at = now + min(lease, max); bound-state poll deadline clamped by expires_at; no request after expiry, expiry resets and signals; xid/retry updated only after a successful emit.",
        design_ref="DESIGN.md §3 C18",
        note="Lease arithmetic over all T1/T2/lease values (ordering of renew/rebind/expiry) is not decided. Trusted base as C17.",
        technique="static analysis: guard must-pass-through, finite-domain abstract interpretation, origin-tree value shapes over rustc MIR"),
    'C19': dict(
        text="Completion of a query is dominated by the port, transaction-id, question-type and question-name guards (plus opcode / response bit / single question); addresses are only taken behind the per-record name match; eq_names answers Ok(true) only when both label iterators are exhausted; accepts = (port 53 and configured server) or mDNS port; name loops are driven by strictly consuming iterators (parse_name pointer window shrinks, R07.5); dispatch: capped doubling back-off, fail-over behind the timeout and re-arming it, Failure behind server exhaustion; poll_at mirrors retransmit and timeout deadlines (R13.1).",
        design_ref="DESIGN.md §3 C19",
        note="Bounded completion time over all schedules is not decided. Trusted base as C17.",
        technique="static analysis: guard must-pass-through, loop progress witnesses, value-origin shapes over rustc MIR"),
    'C09': dict(
        text="Datagram sockets dequeue only through dequeue_with and return emit's result from the closure (a failed emit keeps the datagram); process only behind accepts; first matching UDP socket only; Truncated guard dominates the copy; metadata from the packet's own addresses; PacketBuffer sibling/reset/declined-dequeue rules (R14.x); fragmenter never overwritten while busy (R12.1); of_packet total.",
        design_ref="DESIGN.md §3 C09",
        note="Exactly-once / FIFO behaviour over all operation sequences is not decided. Trusted base as C17.",
        technique="static analysis: who-may-call, value-origin of closure results, guard must-pass-through over rustc MIR"),
    'C10': dict(
        text="Frame length = buffer_len of the emitted reprs; unfragmented transmit only behind total <= ip_mtu(); fragmentation-buffer admission uses the full length and is strict; fragment size aligned (R12.2); reply source = received destination only behind the unicast guards (incl. subnet broadcast); TCP option area always filled; checksums written last (R08.1); ICMP/RST suppression (R11.4).",
        design_ref="DESIGN.md §3 C10",
        note="Field-level well-formedness of every emitted frame in every scenario is not decided. Trusted base as C17.",
        technique="static analysis: value-origin rules and guard must-pass-through over rustc MIR"),
    'C03': dict(
        text="Structural contributors to panic/hang freedom on the ingress path: empty-frame guard; no unwrap of a wire parse result in any iface body reachable from socket_ingress (call-graph audit); frame-derived subtractions in the 6LoWPAN ingress code are dominated by a >= guard; every checked-view accessor stays inside check_len's guarantee (R07.1), parser loops have progress witnesses (R07.5, R19.3), SACK stride (R07.7); destination filters (R11.1); reassembly delivery guards (R12.4).",
        design_ref="DESIGN.md §3 C03",
        note="General absence of index/overflow panics and termination of the whole ingress path is NOT decided (needs a relational numeric analysis); only the listed contributors are. Trusted base as C17.",
        technique="static analysis: call-graph audit, guard must-pass-through, interval comparison against check_len, loop progress witnesses over rustc MIR"),
    'C06': dict(
        text="Writer/reader agreement of the wire module decided structurally: 156 getter/setter pairs touch the same bytes; 109 pairs agree bit-for-bit (bit-provenance evaluation of masks, shifts, byte order); for 27 Repr types the packet field parse reads into a Repr field is the one emit writes from it; emit/parse cursors only accumulate; IPHC inline fields follow RFC 6282 order on both sides; hop-limit code tables are mutually inverse; 6LoWPAN NHC UDP ports: each compression form reads a port from exactly the bits that carry it; TCP end-of-list fills the option area.",
        design_ref="DESIGN.md §3 C06",
        note="Round-trip equality for every Repr value is NOT decided: variable-length option lists, DNS names, DHCP options, address-mode tables of IPHC and value-dependent branches are outside the structural rules (undecided pairs are counted in evidence). Trusted base as C17.",
        technique="static analysis: bit-provenance abstract evaluation of accessor MIR, reader/writer table cross-check, cursor def-use rule"),
    'C20': dict(
        text="6LoWPAN fragment bookkeeping: sent_bytes and datagram_offset advance by exactly the bytes copied, on every path; fragment sizes are multiples of 8 in uncompressed space; FRAG_N size = min(remaining, fragn_size); offset carried in 8-octet units by sender and receiver; datagram_size = payload + 40 and lower-bounded on receipt; IPHC field order and NHC UDP port forms agree between compressor and decompressor (R06.1, R06.4); fragmenter never overwritten while busy (R12.1); reassembly delivery guard (R12.4); frame-derived subtractions guarded (R03.4).",
        design_ref="DESIGN.md §3 C20",
        note="Byte-for-byte equality of the reassembled datagram over all address modes / sizes / arrival orders is NOT decided. Trusted base as C17.",
        technique="static analysis: value-origin / linear-form rules over rustc MIR, bit-provenance cross-check"),
}

NOT_YET = "structural rules for this property are not built yet in this revision; no static claim is made"

def main():
    checks = []
    for pid in sorted(CLAIMS):
        c = CLAIMS[pid]
        checks.append(dict(
            property_id=pid,
            quick_cmd=f"./check {pid} --tier quick",
            thorough_cmd=f"./check {pid} --tier thorough",
            evidence_file=f"/verif/evidence/{pid}.json",
            replay_cmd_template=f"./check {pid} --replay {{path}}",
            engine="smolfacts+sa",
            level_claimed=dict(category="other", text=PROPS[pid]['explanation'] + " | " + c['text'], design_ref=c['design_ref']),
            level_note=c['note'] + " NOT decided: " + "; ".join(PROPS[pid]['not_decided']) + ".",

            technique=c['technique'],
        ))
    na = []
    for i in range(1, 21):
        pid = f"C{i:02d}"
        if pid not in CLAIMS:
            na.append(dict(property_id=pid, reason=NA.get(pid, NOT_YET)))
    m = dict(
        version=1,
        setup_cmd="cd /verif/smolfacts && CARGO_NET_OFFLINE=true cargo build --release --offline && cd /verif && python3 sa/extract.py /repo A >/dev/null",
        hooks=dict(guard="smoltcp_verif", enable="none needed: static analysis reads the unmodified source (no instrumentation)",
                   baseline_off_cmd="cd /repo && cargo test --workspace --no-fail-fast --offline",
                   source_commits=[], add_only=True),
        engines=[
            dict(name="smolfacts", path="/verif/smolfacts", serves_properties=sorted(CLAIMS),
                 kind_free_text="rustc_private driver (RUSTC_WORKSPACE_WRAPPER under cargo +nightly check): dumps type-checked MIR, resolved callees, evaluated constants, ADT/impl tables of /repo's current tree as JSON facts"),
            dict(name="sa", path="/verif/sa", serves_properties=sorted(CLAIMS),
                 kind_free_text="Python static-analysis core over the facts: CFG, demand-driven reaching definitions, origin trees, guard facts, edge-cut must-pass-through, finite-domain abstract interpretation, field-write index, call graph; repo-specific rule tables per property"),
        ],
        checks=checks,
        notes="Technique family: static analysis only. Every check decides named structural clauses (necessary conditions) of its property from the MIR of /repo's current working tree; see DESIGN.md.",
        not_applicable=na,
    )
    with open(os.path.join(HERE, 'MANIFEST.json'), 'w') as f:
        json.dump(m, f, indent=1)
        f.write('\n')

NA = {}

if __name__ == '__main__':
    main()
