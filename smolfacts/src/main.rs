// smolfacts: rustc_private driver that dumps the type-checked program of one crate
// (MIR after drop elaboration at mir-opt-level=0, resolved callees, evaluated constants,
// ADT/impl tables, unsafe sites) as one JSON file.  Used as RUSTC_WORKSPACE_WRAPPER.
//
// env: SMOLFACTS_CRATE (crate name to dump, default "smoltcp"), SMOLFACTS_OUT (output file).
#![feature(rustc_private)]
#![allow(clippy::all)]

extern crate rustc_abi;
extern crate rustc_data_structures;
extern crate rustc_driver;
extern crate rustc_hir;
extern crate rustc_interface;
extern crate rustc_middle;
extern crate rustc_session;
extern crate rustc_span;

use std::fmt::Write as _;

use rustc_driver::Compilation;
use rustc_hir::def::DefKind;
use rustc_hir::def_id::{DefId, LocalDefId};
use rustc_middle::mir::{self, *};
use rustc_middle::ty::{self, Ty, TyCtxt, TypingEnv};
use rustc_span::Span;
use rustc_middle::ty::print::PrintTraitRefExt;

struct Cb;

fn esc(s: &str) -> String {
    let mut o = String::with_capacity(s.len() + 2);
    o.push('"');
    for c in s.chars() {
        match c {
            '"' => o.push_str("\\\""),
            '\\' => o.push_str("\\\\"),
            '\n' => o.push_str("\\n"),
            '\r' => o.push_str("\\r"),
            '\t' => o.push_str("\\t"),
            c if (c as u32) < 0x20 => {
                let _ = write!(o, "\\u{:04x}", c as u32);
            }
            c => o.push(c),
        }
    }
    o.push('"');
    o
}

fn jlist(v: &[String]) -> String {
    let mut o = String::from("[");
    for (i, s) in v.iter().enumerate() {
        if i > 0 {
            o.push(',');
        }
        o.push_str(s);
    }
    o.push(']');
    o
}

struct Cx<'tcx> {
    tcx: TyCtxt<'tcx>,
}

impl<'tcx> Cx<'tcx> {
    fn path(&self, d: DefId) -> String {
        self.tcx.def_path_str(d)
    }

    fn line(&self, sp: Span) -> (String, usize, bool) {
        let exp = sp.from_expansion();
        let sp2 = if exp { sp.source_callsite() } else { sp };
        let sm = self.tcx.sess.source_map();
        let loc = sm.lookup_char_pos(sp2.lo());
        let f = match &loc.file.name {
            rustc_span::FileName::Real(r) => match r.local_path() {
                Some(p) => p.to_string_lossy().to_string(),
                None => format!("{:?}", loc.file.name),
            },
            n => format!("{:?}", n),
        };
        (f, loc.line, exp)
    }

    fn adt_of(&self, t: Ty<'tcx>) -> Option<String> {
        let mut t = t;
        loop {
            match t.kind() {
                ty::Ref(_, inner, _) => t = *inner,
                ty::Adt(def, _) => return Some(self.path(def.did())),
                _ => return None,
            }
        }
    }

    fn scalar_int_json(&self, si: ty::ScalarInt, t: Ty<'tcx>) -> String {
        match t.kind() {
            ty::Bool => {
                if si.try_to_bool().unwrap_or(false) { "true".into() } else { "false".into() }
            }
            ty::Int(_) => {
                let size = si.size();
                let v = si.to_int(size);
                format!("{}", v)
            }
            ty::Uint(_) | ty::Char => {
                let size = si.size();
                let v = si.to_uint(size);
                format!("{}", v)
            }
            _ => {
                let size = si.size();
                format!("{{\"bits\":{}}}", si.to_uint(size))
            }
        }
    }

    fn constvalue_json(&self, cv: ConstValue, t: Ty<'tcx>, depth: usize) -> String {
        let tcx = self.tcx;
        if depth > 6 {
            return "{\"opaque\":\"deep\"}".into();
        }
        match t.kind() {
            ty::Bool | ty::Int(_) | ty::Uint(_) | ty::Char => {
                if let ConstValue::Scalar(s) = cv {
                    if let Ok(si) = s.try_to_scalar_int() {
                        return self.scalar_int_json(si, t);
                    }
                }
            }
            ty::FnDef(d, args) => {
                return self.fn_json(*d, args, None);
            }
            ty::Adt(def, _) if !def.is_union() => {
                if let Some(dc) = tcx.try_destructure_mir_constant_for_user_output(cv, t) {
                    let vname = match dc.variant {
                        Some(v) => def.variant(v).name.to_string(),
                        None => "-".into(),
                    };
                    let fnames: Vec<String> = match dc.variant {
                        Some(v) => def.variant(v).fields.iter().map(|f| esc(&f.name.to_string())).collect(),
                        None => vec![],
                    };
                    let fs: Vec<String> =
                        dc.fields.iter().map(|(v, ft)| self.constvalue_json(*v, *ft, depth + 1)).collect();
                    return format!(
                        "{{\"adt\":{},\"variant\":{},\"fnames\":{},\"fields\":{}}}",
                        esc(&self.path(def.did())),
                        esc(&vname),
                        jlist(&fnames),
                        jlist(&fs)
                    );
                }
            }
            ty::Tuple(_) | ty::Array(..) => {
                if let Some(dc) = tcx.try_destructure_mir_constant_for_user_output(cv, t) {
                    if dc.fields.len() <= 64 {
                        let fs: Vec<String> =
                            dc.fields.iter().map(|(v, ft)| self.constvalue_json(*v, *ft, depth + 1)).collect();
                        return format!("{{\"tuple\":{}}}", jlist(&fs));
                    }
                }
            }
            ty::Ref(_, inner, _) => {
                match inner.kind() {
                    ty::Str | ty::Slice(_) => {
                        if let ConstValue::Slice { alloc_id, meta } = cv {
                            if let Some(ga) = tcx.try_get_global_alloc(alloc_id) {
                                if let rustc_middle::mir::interpret::GlobalAlloc::Memory(a) = ga {
                                    let a = a.inner();
                                    let is_u8 = match inner.kind() {
                                        ty::Str => true,
                                        ty::Slice(e) => *e == tcx.types.u8,
                                        _ => false,
                                    };
                                    if is_u8 {
                                        let n = (meta as usize).min(a.len());
                                        let bytes = a.inspect_with_uninit_and_ptr_outside_interpreter(0..n);
                                        if matches!(inner.kind(), ty::Str) {
                                            return format!("{{\"str\":{}}}", esc(&String::from_utf8_lossy(bytes)));
                                        }
                                        let bs: Vec<String> = bytes.iter().map(|b| b.to_string()).collect();
                                        return format!("{{\"bytes\":{}}}", jlist(&bs));
                                    }
                                }
                            }
                        }
                    }
                    _ => {
                        // &T where T sized: deref through the allocation if the value is a pointer
                        if let ConstValue::Scalar(rustc_middle::mir::interpret::Scalar::Ptr(p, _)) = cv {
                            let (prov, off) = p.prov_and_relative_offset();
                            let alloc_id = prov.alloc_id();
                            if let Some(rustc_middle::mir::interpret::GlobalAlloc::Memory(_)) =
                                tcx.try_get_global_alloc(alloc_id)
                            {
                                let inner_cv = ConstValue::Indirect { alloc_id, offset: off };
                                // scalars behind refs need reading; only handle ADTs/tuples/arrays here
                                match inner.kind() {
                                    ty::Adt(..) | ty::Tuple(_) | ty::Array(..) => {
                                        let j = self.constvalue_json(inner_cv, *inner, depth + 1);
                                        return format!("{{\"ref\":{}}}", j);
                                    }
                                    _ => {}
                                }
                            }
                        }
                    }
                }
            }
            _ => {}
        }
        if let ConstValue::ZeroSized = cv {
            return format!("{{\"zst\":{}}}", esc(&format!("{}", t)));
        }
        format!("{{\"opaque\":{}}}", esc(&format!("{:?}", cv)))
    }

    fn fn_json(&self, d: DefId, args: ty::GenericArgsRef<'tcx>, env: Option<TypingEnv<'tcx>>) -> String {
        let tcx = self.tcx;
        let mut res = "null".to_string();
        let mut rkind = "null".to_string();
        if let Some(env) = env {
            if matches!(tcx.def_kind(d), DefKind::Fn | DefKind::AssocFn) {
                if let Ok(Some(inst)) = ty::Instance::try_resolve(tcx, env, d, args) {
                    res = esc(&self.path(inst.def_id()));
                    let k = match inst.def {
                        ty::InstanceKind::Item(_) => "item",
                        ty::InstanceKind::Virtual(..) => "virtual",
                        ty::InstanceKind::Intrinsic(_) => "intrinsic",
                        ty::InstanceKind::ClosureOnceShim { .. } => "closure_once",
                        ty::InstanceKind::FnPtrShim(..) => "fnptr_shim",
                        ty::InstanceKind::ReifyShim(..) => "reify",
                        ty::InstanceKind::DropGlue(..) => "dropglue",
                        ty::InstanceKind::CloneShim(..) => "clone_shim",
                        _ => "other",
                    };
                    rkind = esc(k);
                }
            }
        }
        let ga: Vec<String> = args.iter().map(|a| esc(&format!("{}", a))).collect();
        let is_trait_method = tcx.trait_of_assoc(d).is_some();
        format!(
            "{{\"fn\":{},\"res\":{},\"rk\":{},\"ga\":{},\"tm\":{}}}",
            esc(&self.path(d)),
            res,
            rkind,
            jlist(&ga),
            is_trait_method
        )
    }

    fn const_json(&self, c: &mir::Const<'tcx>, env: TypingEnv<'tcx>, sp: Span) -> String {
        let tcx = self.tcx;
        let t = c.ty();
        if let ty::FnDef(d, args) = t.kind() {
            return self.fn_json(*d, args, Some(env));
        }
        if let mir::Const::Unevaluated(uv, _) = c {
            if let Some(p) = uv.promoted {
                return format!("{{\"promoted\":{}}}", p.as_usize());
            }
        }
        // do not evaluate constants that still depend on generic parameters
        let generic = match c {
            mir::Const::Unevaluated(uv, _) => uv.args.iter().any(|a| {
                use rustc_middle::ty::TypeVisitableExt;
                a.has_param()
            }),
            mir::Const::Ty(_, ct) => {
                use rustc_middle::ty::TypeVisitableExt;
                ct.has_param()
            }
            _ => false,
        };
        if generic {
            return format!("{{\"opaque\":{}}}", esc(&format!("{}", c)));
        }
        let named = match c {
            mir::Const::Unevaluated(uv, _) => Some(self.path(uv.def)),
            _ => None,
        };
        match c.eval(tcx, env, sp) {
            Ok(cv) => {
                let j = self.constvalue_json(cv, t, 0);
                match named {
                    Some(n) => format!("{{\"named\":{},\"v\":{}}}", esc(&n), j),
                    None => j,
                }
            }
            Err(_) => format!("{{\"opaque\":{}}}", esc(&format!("{}", c))),
        }
    }

    fn place_json(&self, body: &Body<'tcx>, p: &Place<'tcx>) -> String {
        let tcx = self.tcx;
        let mut projs: Vec<String> = vec![];
        let mut pty = PlaceTy::from_ty(body.local_decls[p.local].ty);
        for elem in p.projection.iter() {
            let s = match elem {
                ProjectionElem::Deref => "\"*\"".to_string(),
                ProjectionElem::Field(fi, _) => {
                    let (adt, var, name) = match pty.ty.kind() {
                        ty::Adt(def, _) => {
                            let vi = pty.variant_index.unwrap_or(rustc_abi::FIRST_VARIANT);
                            let v = def.variant(vi);
                            let vn = if def.is_enum() { v.name.to_string() } else { "-".to_string() };
                            (
                                esc(&self.path(def.did())),
                                esc(&vn),
                                esc(&v.fields[fi].name.to_string()),
                            )
                        }
                        ty::Closure(d, _) => {
                            let caps = tcx.closure_captures(d.expect_local());
                            let n = caps
                                .get(fi.as_usize())
                                .map(|c| c.to_symbol().to_string())
                                .unwrap_or_else(|| fi.as_usize().to_string());
                            ("\"{closure}\"".to_string(), "\"-\"".to_string(), esc(&n))
                        }
                        ty::Tuple(_) => ("\"{tuple}\"".to_string(), "\"-\"".to_string(), esc(&fi.as_usize().to_string())),
                        _ => ("null".to_string(), "\"-\"".to_string(), esc(&fi.as_usize().to_string())),
                    };
                    format!("[\"f\",{},{},{},{}]", fi.as_usize(), name, adt, var)
                }
                ProjectionElem::Index(l) => format!("[\"i\",{}]", l.as_usize()),
                ProjectionElem::ConstantIndex { offset, min_length, from_end } => {
                    format!("[\"ci\",{},{},{}]", offset, min_length, from_end)
                }
                ProjectionElem::Subslice { from, to, from_end } => format!("[\"sub\",{},{},{}]", from, to, from_end),
                ProjectionElem::Downcast(name, vi) => {
                    let n = match name {
                        Some(s) => s.to_string(),
                        None => match pty.ty.kind() {
                            ty::Adt(def, _) => def.variant(vi).name.to_string(),
                            _ => vi.as_usize().to_string(),
                        },
                    };
                    format!("[\"dc\",{}]", esc(&n))
                }
                _ => "\"?\"".to_string(),
            };
            projs.push(s);
            pty = pty.projection_ty(tcx, elem);
        }
        format!("[{},{}]", p.local.as_usize(), jlist(&projs))
    }

    fn operand_json(&self, body: &Body<'tcx>, env: TypingEnv<'tcx>, o: &Operand<'tcx>) -> String {
        match o {
            Operand::Copy(p) => format!("[\"c\",{}]", self.place_json(body, p)),
            Operand::Move(p) => format!("[\"m\",{}]", self.place_json(body, p)),
            Operand::Constant(c) => {
                format!("[\"k\",{},{}]", esc(&format!("{}", c.const_.ty())), self.const_json(&c.const_, env, c.span))
            }
            #[allow(unreachable_patterns)]
            _ => format!("[\"k\",\"?\",{{\"opaque\":{}}}]", esc(&format!("{:?}", o))),
        }
    }

    fn rvalue_json(&self, body: &Body<'tcx>, env: TypingEnv<'tcx>, rv: &Rvalue<'tcx>) -> String {
        let tcx = self.tcx;
        match rv {
            Rvalue::Use(o, _) => format!("[\"use\",{}]", self.operand_json(body, env, o)),
            Rvalue::Repeat(o, n) => format!("[\"repeat\",{},{}]", self.operand_json(body, env, o), esc(&format!("{}", n))),
            Rvalue::Ref(_, bk, p) => {
                let k = match bk {
                    BorrowKind::Shared => "shared",
                    BorrowKind::Mut { .. } => "mut",
                    BorrowKind::Fake(_) => "fake",
                };
                format!("[\"ref\",\"{}\",{}]", k, self.place_json(body, p))
            }
            Rvalue::RawPtr(k, p) => format!("[\"rawptr\",{},{}]", esc(&format!("{:?}", k)), self.place_json(body, p)),
            Rvalue::Cast(k, o, t) => {
                let ks = match k {
                    CastKind::IntToInt => "IntToInt".to_string(),
                    CastKind::Transmute => "Transmute".to_string(),
                    CastKind::PtrToPtr => "PtrToPtr".to_string(),
                    CastKind::PointerCoercion(pc, _) => format!("Coerce:{:?}", pc),
                    other => format!("{:?}", other),
                };
                format!("[\"cast\",{},{},{}]", esc(&ks), self.operand_json(body, env, o), esc(&format!("{}", t)))
            }
            Rvalue::BinaryOp(op, ab) => {
                let (a, b) = &**ab;
                format!(
                    "[\"bin\",\"{:?}\",{},{}]",
                    op,
                    self.operand_json(body, env, a),
                    self.operand_json(body, env, b)
                )
            }
            Rvalue::UnaryOp(op, a) => format!("[\"un\",\"{:?}\",{}]", op, self.operand_json(body, env, a)),
            Rvalue::Discriminant(p) => {
                let pt = p.ty(body, tcx).ty;
                format!(
                    "[\"discr\",{},{}]",
                    self.place_json(body, p),
                    match self.adt_of(pt) {
                        Some(a) => esc(&a),
                        None => "null".into(),
                    }
                )
            }
            Rvalue::CopyForDeref(p) => format!("[\"use\",[\"c\",{}]]", self.place_json(body, p)),
            Rvalue::Aggregate(kind, ops) => {
                let os: Vec<String> = ops.iter().map(|o| self.operand_json(body, env, o)).collect();
                let k = match &**kind {
                    AggregateKind::Array(_) => "{\"k\":\"array\"}".to_string(),
                    AggregateKind::Tuple => "{\"k\":\"tuple\"}".to_string(),
                    AggregateKind::Adt(d, vi, _, _, active) => {
                        let def = tcx.adt_def(*d);
                        let v = def.variant(*vi);
                        let fnames: Vec<String> = v.fields.iter().map(|f| esc(&f.name.to_string())).collect();
                        let vn = if def.is_enum() { v.name.to_string() } else { "-".to_string() };
                        format!(
                            "{{\"k\":\"adt\",\"adt\":{},\"variant\":{},\"fnames\":{},\"active\":{}}}",
                            esc(&self.path(*d)),
                            esc(&vn),
                            jlist(&fnames),
                            match active {
                                Some(a) => a.as_usize().to_string(),
                                None => "null".to_string(),
                            }
                        )
                    }
                    AggregateKind::Closure(d, _) => format!("{{\"k\":\"closure\",\"def\":{}}}", esc(&self.path(*d))),
                    AggregateKind::RawPtr(..) => "{\"k\":\"rawptr\"}".to_string(),
                    _ => "{\"k\":\"other\"}".to_string(),
                };
                format!("[\"agg\",{},{}]", k, jlist(&os))
            }
            other => format!("[\"other\",{}]", esc(&format!("{:?}", other))),
        }
    }

    fn body_json(&self, def: LocalDefId, body: &Body<'tcx>, is_promoted: bool) -> String {
        let tcx = self.tcx;
        let env = TypingEnv::post_analysis(tcx, def);
        let mut out = String::new();
        out.push('{');
        // locals
        let mut names: Vec<Option<String>> = vec![None; body.local_decls.len()];
        let mut dbg: Vec<String> = vec![];
        for vdi in &body.var_debug_info {
            if let VarDebugInfoContents::Place(p) = &vdi.value {
                if let Some(l) = p.as_local() {
                    if names[l.as_usize()].is_none() {
                        names[l.as_usize()] = Some(vdi.name.to_string());
                    }
                } else {
                    dbg.push(format!("[{},{}]", esc(&vdi.name.to_string()), self.place_json(body, p)));
                }
            }
        }
        let locals: Vec<String> = body
            .local_decls
            .iter_enumerated()
            .map(|(l, d)| {
                format!(
                    "{{\"ty\":{},\"adt\":{},\"name\":{},\"user\":{}}}",
                    esc(&format!("{}", d.ty)),
                    match self.adt_of(d.ty) {
                        Some(a) => esc(&a),
                        None => "null".into(),
                    },
                    match &names[l.as_usize()] {
                        Some(n) => esc(n),
                        None => "null".into(),
                    },
                    names[l.as_usize()].is_some()
                )
            })
            .collect();
        let _ = write!(out, "\"nargs\":{},\"locals\":{},\"dbg\":{}", body.arg_count, jlist(&locals), jlist(&dbg));
        // blocks
        let mut blocks: Vec<String> = vec![];
        for (_bb, data) in body.basic_blocks.iter_enumerated() {
            let mut stmts: Vec<String> = vec![];
            for st in &data.statements {
                let ln = self.line(st.source_info.span).1;
                match &st.kind {
                    StatementKind::Assign(b) => {
                        let (p, rv) = &**b;
                        stmts.push(format!(
                            "[\"a\",{},{},{}]",
                            self.place_json(body, p),
                            self.rvalue_json(body, env, rv),
                            ln
                        ));
                    }
                    StatementKind::SetDiscriminant { place, variant_index } => {
                        let pty = place.ty(body, tcx);
                        let vn = match pty.ty.kind() {
                            ty::Adt(d, _) => d.variant(*variant_index).name.to_string(),
                            _ => variant_index.as_usize().to_string(),
                        };
                        stmts.push(format!("[\"sd\",{},{},{}]", self.place_json(body, place), esc(&vn), ln));
                    }
                    StatementKind::Intrinsic(i) => {
                        stmts.push(format!("[\"intr\",{},{}]", esc(&format!("{:?}", i)), ln));
                    }
                    _ => {}
                }
            }
            let term = data.terminator();
            let (_, tl, texp) = self.line(term.source_info.span);
            let t = match &term.kind {
                TerminatorKind::Goto { target } => format!("[\"goto\",{}]", target.as_usize()),
                TerminatorKind::SwitchInt { discr, targets } => {
                    let ts: Vec<String> = targets.iter().map(|(v, b)| format!("[{},{}]", v, b.as_usize())).collect();
                    let dty = discr.ty(body, tcx);
                    format!(
                        "[\"switch\",{},{},{},{}]",
                        self.operand_json(body, env, discr),
                        jlist(&ts),
                        targets.otherwise().as_usize(),
                        esc(&format!("{}", dty))
                    )
                }
                TerminatorKind::Return => "[\"ret\"]".to_string(),
                TerminatorKind::Unreachable => "[\"unreachable\"]".to_string(),
                TerminatorKind::UnwindResume => "[\"resume\"]".to_string(),
                TerminatorKind::UnwindTerminate(_) => "[\"abort\"]".to_string(),
                TerminatorKind::Drop { place, target, .. } => {
                    format!("[\"drop\",{},{}]", self.place_json(body, place), target.as_usize())
                }
                TerminatorKind::Call { func, args, destination, target, .. } => {
                    let callee = match func {
                        Operand::Constant(c) => self.const_json(&c.const_, env, c.span),
                        Operand::Copy(p) | Operand::Move(p) => format!("{{\"local\":{}}}", self.place_json(body, p)),
                        #[allow(unreachable_patterns)]
                        _ => "{\"opaque\":\"?\"}".to_string(),
                    };
                    let os: Vec<String> = args.iter().map(|a| self.operand_json(body, env, &a.node)).collect();
                    format!(
                        "[\"call\",{},{},{},{},{},{}]",
                        callee,
                        jlist(&os),
                        self.place_json(body, destination),
                        match target {
                            Some(t) => t.as_usize().to_string(),
                            None => "null".to_string(),
                        },
                        tl,
                        texp
                    )
                }
                TerminatorKind::Assert { cond, expected, msg, target, .. } => {
                    let k = match &**msg {
                        AssertKind::BoundsCheck { len, index } => format!(
                            "{{\"k\":\"bounds\",\"len\":{},\"index\":{}}}",
                            self.operand_json(body, env, len),
                            self.operand_json(body, env, index)
                        ),
                        AssertKind::Overflow(op, a, b) => format!(
                            "{{\"k\":\"overflow\",\"op\":\"{:?}\",\"a\":{},\"b\":{}}}",
                            op,
                            self.operand_json(body, env, a),
                            self.operand_json(body, env, b)
                        ),
                        AssertKind::OverflowNeg(_) => "{\"k\":\"overflow_neg\"}".to_string(),
                        AssertKind::DivisionByZero(_) => "{\"k\":\"div0\"}".to_string(),
                        AssertKind::RemainderByZero(_) => "{\"k\":\"rem0\"}".to_string(),
                        _ => "{\"k\":\"other\"}".to_string(),
                    };
                    format!(
                        "[\"assert\",{},{},{},{},{}]",
                        self.operand_json(body, env, cond),
                        expected,
                        k,
                        target.as_usize(),
                        tl
                    )
                }
                TerminatorKind::FalseEdge { real_target, .. } => format!("[\"goto\",{}]", real_target.as_usize()),
                TerminatorKind::FalseUnwind { real_target, .. } => format!("[\"goto\",{}]", real_target.as_usize()),
                other => format!("[\"other\",{}]", esc(&format!("{:?}", other))),
            };
            blocks.push(format!("{{\"s\":{},\"t\":{},\"cl\":{}}}", jlist(&stmts), t, data.is_cleanup));
        }
        let _ = write!(out, ",\"blocks\":{}", jlist(&blocks));
        if !is_promoted {
            let proms = tcx.promoted_mir(def.to_def_id());
            let ps: Vec<String> = proms.iter().map(|b| self.body_json(def, b, true)).collect();
            let _ = write!(out, ",\"promoted\":{}", jlist(&ps));
        }
        out.push('}');
        out
    }
}

struct UnsafeFinder<'a> {
    found: &'a mut Vec<Span>,
}

impl<'a, 'v> rustc_hir::intravisit::Visitor<'v> for UnsafeFinder<'a> {
    fn visit_block(&mut self, b: &'v rustc_hir::Block<'v>) {
        if let rustc_hir::BlockCheckMode::UnsafeBlock(rustc_hir::UnsafeSource::UserProvided) = b.rules {
            self.found.push(b.span);
        }
        rustc_hir::intravisit::walk_block(self, b);
    }
}

fn dump<'tcx>(tcx: TyCtxt<'tcx>, out_path: &str) {
    let cx = Cx { tcx };
    let mut out = String::with_capacity(64 << 20);
    out.push('{');
    let _ = write!(out, "\"crate\":{}", esc(&tcx.crate_name(rustc_hir::def_id::LOCAL_CRATE).to_string()));

    // ADTs, impls, named consts
    let mut adts: Vec<String> = vec![];
    let mut impls: Vec<String> = vec![];
    let mut consts: Vec<String> = vec![];
    let mut unsafe_items: Vec<String> = vec![];
    let mut fns_meta: Vec<String> = vec![];
    for ld in tcx.hir_crate_items(()).definitions() {
        let d = ld.to_def_id();
        match tcx.def_kind(d) {
            DefKind::Struct | DefKind::Enum => {
                let def = tcx.adt_def(d);
                let mut vs: Vec<String> = vec![];
                let discrs: Vec<u128> =
                    if def.is_enum() { def.discriminants(tcx).map(|(_, x)| x.val).collect() } else { vec![0] };
                for (i, v) in def.variants().iter().enumerate() {
                    let fs: Vec<String> = v
                        .fields
                        .iter()
                        .map(|f| {
                            let fty = tcx.type_of(f.did).instantiate_identity().skip_norm_wip();
                            format!(
                                "{{\"name\":{},\"ty\":{},\"pub\":{}}}",
                                esc(&f.name.to_string()),
                                esc(&format!("{}", fty)),
                                f.vis.is_public()
                            )
                        })
                        .collect();
                    vs.push(format!(
                        "{{\"name\":{},\"discr\":{},\"fields\":{}}}",
                        esc(&v.name.to_string()),
                        discrs.get(i).copied().unwrap_or(0),
                        jlist(&fs)
                    ));
                }
                let (f, l, _) = cx.line(tcx.def_span(d));
                adts.push(format!(
                    "{}:{{\"kind\":{},\"variants\":{},\"file\":{},\"line\":{}}}",
                    esc(&cx.path(d)),
                    if def.is_enum() { "\"enum\"" } else { "\"struct\"" },
                    jlist(&vs),
                    esc(&f),
                    l
                ));
            }
            DefKind::Impl { of_trait } => {
                let self_ty = tcx.type_of(d).instantiate_identity().skip_norm_wip();
                let tr = if of_trait {
                    let t = tcx.impl_trait_ref(d).instantiate_identity().skip_norm_wip();
                    esc(&format!("{}", t.print_only_trait_path()))
                } else {
                    "null".to_string()
                };
                let items: Vec<String> =
                    tcx.associated_item_def_ids(d).iter().map(|i| esc(&cx.path(*i))).collect();
                let derived = tcx.is_automatically_derived(d);
                let is_unsafe = of_trait && tcx.impl_trait_header(d).safety.is_unsafe();
                let (f, l, exp) = cx.line(tcx.def_span(d));
                if is_unsafe && !exp {
                    unsafe_items.push(format!("{{\"what\":\"impl\",\"file\":{},\"line\":{}}}", esc(&f), l));
                }
                impls.push(format!(
                    "{{\"trait\":{},\"self\":{},\"self_adt\":{},\"items\":{},\"derived\":{},\"file\":{},\"line\":{}}}",
                    tr,
                    esc(&format!("{}", self_ty)),
                    match cx.adt_of(self_ty) {
                        Some(a) => esc(&a),
                        None => "null".into(),
                    },
                    jlist(&items),
                    derived,
                    esc(&f),
                    l
                ));
            }
            DefKind::Const { .. } | DefKind::AssocConst { .. } => {
                let generics = tcx.generics_of(d);
                if generics.count() == 0 && generics.parent.map(|p| tcx.generics_of(p).count() == 0).unwrap_or(true) {
                    // trait assoc consts without a default have no body
                    let has_body = tcx.hir_maybe_body_owned_by(ld).is_some();
                    if has_body {
                        let t = tcx.type_of(d).instantiate_identity().skip_norm_wip();
                        if let Ok(cv) = tcx.const_eval_poly(d) {
                            consts.push(format!(
                                "{}:{{\"ty\":{},\"v\":{}}}",
                                esc(&cx.path(d)),
                                esc(&format!("{}", t)),
                                cx.constvalue_json(cv, t, 0)
                            ));
                        }
                    }
                }
            }
            DefKind::Fn | DefKind::AssocFn => {
                let sig = tcx.fn_sig(d).instantiate_identity().skip_norm_wip();
                let (f, l, exp) = cx.line(tcx.def_span(d));
                if sig.safety().is_unsafe() && !exp {
                    unsafe_items.push(format!(
                        "{{\"what\":\"fn\",\"fn\":{},\"file\":{},\"line\":{}}}",
                        esc(&cx.path(d)),
                        esc(&f),
                        l
                    ));
                }
                let vis = tcx.visibility(d);
                fns_meta.push(format!("{}:{{\"pub\":{}}}", esc(&cx.path(d)), vis.is_public()));
            }
            _ => {}
        }
    }
    let _ = write!(out, ",\"adts\":{{{}}}", adts.join(","));
    let _ = write!(out, ",\"impls\":{}", jlist(&impls));
    let _ = write!(out, ",\"consts\":{{{}}}", consts.join(","));
    let _ = write!(out, ",\"fns\":{{{}}}", fns_meta.join(","));

    // bodies
    let mut bodies: Vec<String> = vec![];
    let mut seen: std::collections::HashMap<String, usize> = std::collections::HashMap::new();
    for ld in tcx.hir_body_owners() {
        let d = ld.to_def_id();
        let kind = tcx.def_kind(d);
        let kname = match kind {
            DefKind::Fn => "fn",
            DefKind::AssocFn => "method",
            DefKind::Closure => "closure",
            _ => continue,
        };
        if tcx.is_coroutine(d) {
            continue;
        }
        // unsafe blocks
        {
            let mut found = vec![];
            let hb = tcx.hir_body_owned_by(ld);
            let mut uf = UnsafeFinder { found: &mut found };
            rustc_hir::intravisit::Visitor::visit_body(&mut uf, hb);
            for sp in found {
                if !sp.from_expansion() {
                    let (f, l, _) = cx.line(sp);
                    unsafe_items.push(format!(
                        "{{\"what\":\"block\",\"fn\":{},\"file\":{},\"line\":{}}}",
                        esc(&cx.path(d)),
                        esc(&f),
                        l
                    ));
                }
            }
        }
        let steal = tcx.mir_drops_elaborated_and_const_checked(ld);
        let body_ref = steal.borrow();
        let body: &Body<'tcx> = &body_ref;
        let mut key = cx.path(d);
        let n = seen.entry(key.clone()).or_insert(0);
        *n += 1;
        if *n > 1 {
            key = format!("{}#{}", key, *n);
        }
        let (f, l, exp) = cx.line(tcx.def_span(d));
        // enclosing impl
        let mut impl_trait = "null".to_string();
        let mut impl_self = "null".to_string();
        let mut derived = false;
        let owner_fn = if kind == DefKind::Closure { tcx.typeck_root_def_id(d) } else { d };
        if let Some(imp) = tcx.impl_of_assoc(owner_fn) {
            let st = tcx.type_of(imp).instantiate_identity().skip_norm_wip();
            impl_self = match cx.adt_of(st) {
                Some(a) => esc(&a),
                None => esc(&format!("{}", st)),
            };
            if tcx.impl_opt_trait_ref(imp).is_some() {
                let t = tcx.impl_trait_ref(imp).instantiate_identity().skip_norm_wip();
                impl_trait = esc(&format!("{}", t.print_only_trait_path()));
            }
            derived = tcx.is_automatically_derived(imp);
        }
        let parent = if kind == DefKind::Closure { esc(&cx.path(tcx.parent(d))) } else { "null".to_string() };
        let is_test = f.contains("/tests/") ;
        let _ = is_test;
        let bj = cx.body_json(ld, body, false);
        bodies.push(format!(
            "{}:{{\"file\":{},\"line\":{},\"kind\":\"{}\",\"exp\":{},\"impl_trait\":{},\"impl_self\":{},\"derived\":{},\"parent\":{},\"root\":{},\"mir\":{}}}",
            esc(&key),
            esc(&f),
            l,
            kname,
            exp,
            impl_trait,
            impl_self,
            derived,
            parent,
            esc(&cx.path(owner_fn)),
            bj
        ));
    }
    let _ = write!(out, ",\"unsafe\":{}", jlist(&unsafe_items));
    let _ = write!(out, ",\"bodies\":{{{}}}", bodies.join(","));
    out.push('}');
    std::fs::write(out_path, out).expect("write facts");
}

impl rustc_driver::Callbacks for Cb {
    fn after_analysis<'tcx>(&mut self, _c: &rustc_interface::interface::Compiler, tcx: TyCtxt<'tcx>) -> Compilation {
        let want = std::env::var("SMOLFACTS_CRATE").unwrap_or_else(|_| "smoltcp".into());
        let name = tcx.crate_name(rustc_hir::def_id::LOCAL_CRATE).to_string();
        if name == want {
            if let Ok(out) = std::env::var("SMOLFACTS_OUT") {
                rustc_middle::ty::print::with_no_trimmed_paths!(dump(tcx, &out));
            }
        }
        Compilation::Continue
    }
}

fn main() {
    let mut args: Vec<String> = std::env::args().collect();
    // RUSTC_WORKSPACE_WRAPPER mode: argv[1] is the path of the real rustc.
    if args.len() > 1 && (args[1].ends_with("rustc") || args[1].contains("/rustc")) {
        args.remove(1);
    }
    let mut cb = Cb;
    rustc_driver::run_compiler(&args, &mut cb);
}
